"""Self-tests of the simulator: determinism and sensitivity.

  smoke          a few runs of every machine + a two-interpreter digest diff
                 (this is MANIFEST.setup_cmd's sanity check; ~20 s)
  determinism    many seeds per machine: (a) twice in one interpreter,
                 (b) again in fresh interpreters under other PYTHONHASHSEEDs
                 and another partition into blocks; digests must be identical
  sensitivity    plants mutants of the library in scratch copies under /tmp
                 (removed afterwards), points the checks at them through
                 VERIF_REPO and requires each to be reported (exit 1) by the
                 quick check of its property

  findings       replays of the repaired defects: must fail on the tree just
                 before each repair and hold on the current tree

Nothing here writes under /verif/evidence or /verif/replays.
"""
import json
import os
import shutil
import subprocess
import sys
import tempfile
import time

sys.path.insert(0, os.path.dirname(os.path.dirname(os.path.abspath(__file__))))

from sim import core  # pylint: disable=g-import-not-at-top

PY = sys.executable
WORKER = os.path.join(core.VERIF_DIR, 'sim', 'worker.py')
CLI = os.path.join(core.VERIF_DIR, 'sim', 'cli.py')

PROFILES = [('heap', 'default'), ('diag', 'default'), ('mm', 'faultfree'),
            ('mm', 'faults'), ('mm', 'c14')]


def env_for(hashseed, extra=None):
  from sim import cli  # pylint: disable=g-import-not-at-top
  env = cli.worker_env(hashseed)
  env.update(extra or {})
  return env


def start_block(machine, profile, seed, tier, start, count, hashseed,
                twice=False):
  out = tempfile.TemporaryFile()
  err = tempfile.TemporaryFile()
  args = [PY, WORKER, 'run', machine, str(seed), tier, profile, str(start),
          str(count), '--digests']
  if twice:
    args.append('--twice')
  p = subprocess.Popen(args, stdout=out, stderr=err, cwd=core.VERIF_DIR,
                       env=env_for(hashseed))
  return p, out, err


def finish_block(job):
  p, out, err = job
  p.wait()
  out.seek(0)
  err.seek(0)
  text, etext = out.read().decode(), err.read().decode(errors='replace')
  out.close()
  err.close()
  if p.returncode != 0:
    raise RuntimeError('worker failed: ' + etext[-1500:])
  return json.loads(text.strip().splitlines()[-1])


def run_parallel(jobs_specs, width=16):
  """jobs_specs: list of (tag, kwargs). Returns {tag: result}."""
  pending = list(jobs_specs)
  running = []
  results = {}
  while pending or running:
    while pending and len(running) < width:
      tag, kw = pending.pop(0)
      running.append((tag, start_block(**kw)))
    still = []
    for tag, job in running:
      if job[0].poll() is None:
        still.append((tag, job))
      else:
        results[tag] = finish_block(job)
    running = still
    if running:
      time.sleep(0.05)
  return results


def determinism(sizes, seed=0, tier='quick'):
  """sizes: {machine: number of runs}. Returns number of mismatches."""
  specs = []
  for machine, profile in PROFILES:
    n = sizes[machine]
    # A: whole range in blocks of n/4, run twice in each interpreter
    # B: blocks of n/3 (another partition), other hash seeds
    for part, pieces in (('A', 4), ('B', 3), ('C', 7)):
      size = -(-n // pieces)
      for j, start in enumerate(range(0, n, size)):
        hs = core.derive('selftest', part, machine, profile, j) % 4294967295 + 1
        specs.append(((machine, profile, part, start),
                      dict(machine=machine, profile=profile, seed=seed,
                           tier=tier, start=start,
                           count=min(size, n - start), hashseed=hs,
                           twice=(part == 'A'))))
  t0 = time.time()
  results = run_parallel(specs)
  bad = 0
  for machine, profile in PROFILES:
    by_part = {}
    errs = 0
    for (m, p, part, start), res in results.items():
      if (m, p) != (machine, profile):
        continue
      by_part.setdefault(part, {}).update(res['digests'])
      errs += len(res['harness_errors'])
      for he in res['harness_errors'][:2]:
        print('  harness error in %s:%s run %d: %s' % (
            m, p, he['index'], he['trace'][-600:]))
    n = len(by_part['A'])
    mism = [i for i in by_part['A']
            if not by_part['A'][i] == by_part['B'].get(i) == by_part['C'].get(i)]
    print('determinism %s:%s  %d runs x (2 in-process + 2 fresh interpreters, '
          '3 partitions, %d hash seeds): %d mismatches, %d harness errors' % (
              machine, profile, n, 14, len(mism), errs))
    if mism:
      print('  differing run indices: %s' % mism[:12])
    bad += len(mism) + errs
  print('determinism self-test took %.1fs' % (time.time() - t0))
  return bad


# --------------------------------------------------------------------------
# sensitivity: mutants
# --------------------------------------------------------------------------
DIAG = 'matched_markets/methodology/tbrmmdiagnostics.py'
MM = 'matched_markets/methodology/tbrmatchedmarkets.py'
HEAP = 'matched_markets/methodology/heapdict.py'
DATA = 'matched_markets/methodology/tbrmmdata.py'

X_SETTER_TAIL = """    self._x = x
    self._corr = None
    self._required_impact = None
    self._pretestfit = None
    self._aatest = None
    self._bbtest = None
    self._dwtest = None
    self._tests_ok = None
"""


def _drop(line):
  return (DIAG, X_SETTER_TAIL, X_SETTER_TAIL.replace(line, ''))


MUTANTS = [
    # ---- C08 --------------------------------------------------------------
    ('c08_no_reset_tests_ok', 'C08', [_drop('    self._tests_ok = None\n')]),
    ('c08_no_reset_corr', 'C08', [_drop('    self._corr = None\n')]),
    ('c08_no_reset_required_impact', 'C08',
     [_drop('    self._required_impact = None\n')]),
    ('c08_no_reset_pretestfit', 'C08', [_drop('    self._pretestfit = None\n')]),
    ('c08_no_reset_aatest', 'C08', [_drop('    self._aatest = None\n')]),
    ('c08_no_reset_bbtest', 'C08', [_drop('    self._bbtest = None\n')]),
    ('c08_no_reset_dwtest', 'C08', [_drop('    self._dwtest = None\n')]),
    ('c08_y_setter_keeps_x', 'C08',
     [(DIAG, "    self._y_mean = y.mean()\n    self.x = None\n",
       "    self._y_mean = y.mean()\n    if self._x is not None and "
       "len(self._x) != len(y):\n      self.x = None\n")]),
    ('c08_x_mean_not_updated_on_clear_and_set', 'C08',
     [(DIAG, "      self._x_mean = x.mean()\n",
       "      if self._x_mean is None:\n        self._x_mean = x.mean()\n")]),
    ('c08_cached_corr_test', 'C08',
     [(DIAG, "    corr = self.corr\n    if corr is None:\n      return None\n"
             "    return corr >= self._par.min_corr\n",
       "    corr = self.corr\n    if corr is None:\n      return None\n"
       "    if getattr(self, '_corr_test', None) is None:\n"
       "      self._corr_test = corr >= self._par.min_corr\n"
       "    return self._corr_test\n")]),
    ('c08_aliasing_asarray_x', 'C08',
     [(DIAG, "      x = np.array(value)\n", "      x = np.asarray(value)\n")]),
    ('c08_rejected_x_clears_caches_late', 'C08',
     [(DIAG, "      x = np.array(value)\n      if x.ndim != 1:",
       "      x = np.array(value)\n      self._x_mean = None\n"
       "      if x.ndim != 1:")]),
    # ---- C10 --------------------------------------------------------------
    ('c10_results_rewritten_in_place', 'C10',
     [(MM, "        output_result.append(\n            TBRMMDesign(d.score, "
           "treatment_geos, control_geos, d.diag))\n",
       "        d.treatment_geos = treatment_geos\n"
       "        d.control_geos = control_geos\n"
       "        output_result.append(d)\n")]),
    ('c10_greedy_leaks_ranges', 'C10',
     [(MM, "    finally:\n      (self.parameters.treatment_geos_range,\n"
           "       self.parameters.control_geos_range) = specified_ranges\n",
       "    finally:\n      pass\n")]),
    ('c10_greedy_leak_only_when_interrupted', 'C10',
     [(MM, "    try:\n      return self._greedy_search()\n    finally:\n"
           "      (self.parameters.treatment_geos_range,\n"
           "       self.parameters.control_geos_range) = specified_ranges\n",
       "    result = self._greedy_search()\n"
       "    (self.parameters.treatment_geos_range,\n"
       "     self.parameters.control_geos_range) = specified_ranges\n"
       "    return result\n")]),
    ('c10_heap_allocated_once', 'C10',
     [(MM, "    self.data = data\n    self.parameters = parameters\n",
       "    self.data = data\n    self.parameters = parameters\n"
       "    self._heap = heapdict.HeapDict(size=parameters.n_designs)\n"),
      (MM, "    results = heapdict.HeapDict(size=self.parameters.n_designs)\n\n"
           "    def skip_if_subset",
       "    results = self._heap\n\n    def skip_if_subset")]),
    ('c10_random_tmp_score_survives', 'C10',
     [(MM, "    tmp_score.score = tmp_score.score._replace(\n"
           "        corr_test=0,\n        aa_test=0,\n        bb_test=0,\n"
           "        dw_test=0,\n        corr=0,\n"
           "        inv_required_impact=0)\n",
       "    tmp_score.score = tmp_score.score._replace(\n"
       "        corr_test=0,\n        aa_test=0,\n        bb_test=0,\n"
       "        dw_test=0,\n        corr=0,\n"
       "        inv_required_impact=0)\n"
       "    if tmp_diag.y[0] > 0.5:\n"
       "      self.geo_req_impact = self.geo_req_impact.iloc[::-1]\n")]),
    ('c10_retrieval_consumes', 'C10',
     [(MM, "    result = self._search_results.get_result()\n",
       "    result = self._search_results.get_result()\n"
       "    self._search_results = heapdict.HeapDict(size=1)\n")]),
    ('c10_n_designs_written_back', 'C10',
     [(MM, "    self._search_results = results\n    return self.search_results()"
           "\n\n  def search_results",
       "    self._search_results = results\n"
       "    self.parameters.n_designs = max(1, len(results.get_result().get("
       "0, [])))\n    return self.search_results()\n\n  def search_results")]),
    ('c10_size_range_memoised_on_first_use', 'C10',
     [(MM, "    treatment_geos_range = self.parameters.treatment_geos_range\n"
           "    if treatment_geos_range is None:\n      n_geos_from",
       "    treatment_geos_range = self.parameters.treatment_geos_range\n"
       "    if getattr(self, '_seen_search', False):\n"
       "      n_treatment_min = 1\n"
       "    if treatment_geos_range is None:\n      n_geos_from"),
      (MM, "    self._search_results = results\n    return self.search_results()"
           "\n\n  def search_results",
       "    self._search_results = results\n    self._seen_search = True\n"
       "    return self.search_results()\n\n  def search_results")]),
    ('c10_exhaustive_truncates_frame_again', 'C10',
     [(MM, "    treatment_share_range = self.parameters.treatment_share_range\n"
           "    budget_range = self.parameters.budget_range\n\n"
           "    # Do not store",
       "    treatment_share_range = self.parameters.treatment_share_range\n"
       "    budget_range = self.parameters.budget_range\n"
       "    self.data.df = self.data.df.iloc[:, 1:]\n\n"
       "    # Do not store")]),
    ('c10_listing_shares_one_iterator', 'C10',
     [(MM, "    if n <= 0:\n      raise ValueError('Treatment group size n must "
           "be positive')\n",
       "    if n <= 0:\n      raise ValueError('Treatment group size n must "
       "be positive')\n    cache = self.__dict__.setdefault('_tg', {})\n"
       "    if n in cache:\n      yield from cache[n]\n      return\n"),
      (MM, "      it = itertools.combinations(varying_treatment_geos, "
           "n_remaining)\n      for treatment_geos_combination in it:\n"
           "        treatment_group = fixed_treatment_geos | set("
           "treatment_geos_combination)\n",
       "      it = itertools.combinations(varying_treatment_geos, "
       "n_remaining)\n      cache[n] = it\n"
       "      for treatment_geos_combination in it:\n"
       "        treatment_group = fixed_treatment_geos | set("
       "treatment_geos_combination)\n")]),
    # ---- C14 --------------------------------------------------------------
    ('c14_le_for_lt', 'C14',
     [(HEAP, "if len(queue) < self._size:", "if len(queue) <= self._size:")]),
    ('c14_heapreplace', 'C14',
     [(HEAP, "heapq.heappushpop(queue, item)",
       "heapq.heapreplace(queue, item) if queue else None")]),
    ('c14_nlargest_minus_one', 'C14',
     [(HEAP, "heapq.nlargest(len(q), q)", "heapq.nlargest(len(q) - 1, q) "
             "if len(q) > 3 else heapq.nlargest(len(q), q)")]),
    ('c14_returns_internal_list', 'C14',
     [(HEAP, "      result[key] = heapq.nlargest(len(q), q)\n",
       "      q.sort(reverse=True)\n      result[key] = q\n")]),
    ('c14_store_shared_between_instances', 'C14',
     [(HEAP, "    self._result = collections.defaultdict(list)\n",
       "    self._result = self._shared\n"),
      (HEAP, "  def __init__(self, size: int):\n",
       "  _shared = collections.defaultdict(list)\n\n"
       "  def __init__(self, size: int):\n")]),
    ('c08_impact_term_cached_per_class_by_length', 'C08',
     [(DIAG, "  @functools.lru_cache()\n  def _impact_estimate(\n      self,\n",
       "  _terms = {}\n\n  def _impact_estimate(\n      self,\n"),
      (DIAG, "    phi = stats.f(dfn=1, dfd=n - 1).ppf(flevel)\n",
       "    if n in self._terms:\n      return self._terms[n]\n"
       "    phi = stats.f(dfn=1, dfd=n - 1).ppf(flevel)\n"),
      (DIAG, "    term = (tq_sig + tq_pow) * n_test * sq\n    return term\n",
       "    term = (tq_sig + tq_pow) * n_test * sq\n"
       "    self._terms[n] = term * np.std(self._y, ddof=2)\n"
       "    return self._terms[n]\n"),
      (DIAG, "    sigma = np.std(self.y, ddof=2) * np.sqrt(1 - corr ** 2)\n",
       "    sigma = np.sqrt(1 - corr ** 2)\n")]),
    ('c08_reset_skipped_when_sum_unchanged', 'C08',
     [(DIAG, "    self._x = x\n    self._corr = None\n",
       "    if (x is not None and self._x is not None and\n"
       "        np.isclose(x.sum(), self._x.sum())):\n"
       "      self._x = x\n      return\n"
       "    self._x = x\n    self._corr = None\n")]),
    ('c08_impact_term_cached_by_length_ignores_parameters', 'C08',
     [(DIAG, "    term = self._impact_estimate(par.n_test,\n",
       "    term = self._term_cache.setdefault(n, self._impact_estimate(par.n_test,\n"),
      (DIAG, "                                 par.power_level)\n    sigma = ",
       "                                 par.power_level))\n    sigma = "),
      (DIAG, "  _x_mean = None  # Mean of x.\n",
       "  _x_mean = None  # Mean of x.\n  _term_cache = {}\n")]),
    ('c14_search_results_ascending_when_many', 'C14',
     [(MM, "    return output_result\n",
       "    if len(output_result) > 2:\n      output_result[-1], "
       "output_result[-2] = output_result[-2], output_result[-1]\n"
       "    return output_result\n")]),
    ('c14_greedy_cap_off_by_one', 'C14',
     [(MM, "  def _greedy_search(self):\n    \"\"\"Implementation of "
           "greedy_search().\"\"\"\n    budget_range = self.parameters."
           "budget_range\n    results = heapdict.HeapDict(size=self.parameters."
           "n_designs)\n",
       "  def _greedy_search(self):\n    \"\"\"Implementation of "
       "greedy_search().\"\"\"\n    budget_range = self.parameters."
       "budget_range\n    results = heapdict.HeapDict(size=self.parameters."
       "n_designs + 1)\n")]),
]


def make_mutant(base, name, edits):
  root = os.path.join(base, name)
  shutil.copytree(os.path.join(core.repo_root(), 'matched_markets'),
                  os.path.join(root, 'matched_markets'),
                  ignore=shutil.ignore_patterns('__pycache__', 'notebook',
                                                'csv', 'docs'))
  for rel, old, new in edits:
    path = os.path.join(root, rel)
    with open(path) as f:
      src = f.read()
    if src.count(old) != 1:
      raise RuntimeError('mutant %s: pattern occurs %d times in %s' % (
          name, src.count(old), rel))
    with open(path, 'w') as f:
      f.write(src.replace(old, new))
  subprocess.run([PY, '-m', 'py_compile'] + [
      os.path.join(root, rel) for rel, _, _ in edits], check=True)
  return root


def sensitivity(only=None, width=3, scale='1'):
  base = tempfile.mkdtemp(prefix='mm_scratch.')
  t0 = time.time()
  missed = []
  try:
    todo = [m for m in MUTANTS if not only or any(o in m[0] for o in only)]
    running = []
    results = {}
    while todo or running:
      while todo and len(running) < width:
        name, prop, edits = todo.pop(0)
        root = make_mutant(base, name, edits)
        out = open(os.path.join(root, 'log.txt'), 'w+')
        env = dict(os.environ)
        env.update({'VERIF_REPO': root, 'VERIF_OUT': os.path.join(root, 'out'),
                    'VERIF_WORKERS': str(max(2, 16 // width)),
                    'VERIF_SCALE': scale})
        p = subprocess.Popen([PY, CLI, prop, '--tier', 'quick'], stdout=out,
                             stderr=subprocess.STDOUT, cwd=core.VERIF_DIR,
                             env=env)
        running.append((name, prop, root, p, out, time.time()))
      still = []
      for name, prop, root, p, out, ts in running:
        if p.poll() is None:
          still.append((name, prop, root, p, out, ts))
          continue
        out.seek(0)
        text = out.read()
        out.close()
        lines = [l for l in text.splitlines()
                 if l.startswith(('VIOLATION', 'violation class',
                                  'HARNESS-ERROR', 'KNOWN'))]
        caught = p.returncode == 1 and any(
            l.startswith('VIOLATION property=%s ' % prop) for l in lines)
        results[name] = caught
        print('%-44s %s  exit=%d  %.0fs  %s' % (
            name, 'CAUGHT' if caught else 'MISSED', p.returncode,
            time.time() - ts,
            ' | '.join(l[:150] for l in lines if l.startswith('violation'))[:320]),
              flush=True)
        if not caught:
          missed.append(name)
          print(text[-1500:])
        shutil.rmtree(root, ignore_errors=True)
      running = still
      if running:
        time.sleep(0.2)
  finally:
    shutil.rmtree(base, ignore_errors=True)
  print('sensitivity: %d/%d mutants caught in %.0fs; missed: %s' % (
      sum(results.values()), len(results), time.time() - t0, missed))
  return len(missed)


def findings():
  """Every repaired defect: its replay must FAIL on the tree just before the
  repair and HOLD on the current tree (a `fixed` entry suppresses nothing)."""
  base = tempfile.mkdtemp(prefix='mm_scratch.')
  bad = 0
  try:
    for f in core.load_known_findings():
      if f.get('status') != 'fixed':
        continue
      replay = os.path.join(core.VERIF_DIR, f['replay'])
      root = os.path.join(base, f['commit'])
      os.makedirs(root)
      subprocess.run('git -C %s archive %s^ matched_markets | tar -x -C %s' % (
          core.repo_root(), f['commit'], root), shell=True, check=True)
      before = subprocess.run([PY, CLI, '--replay', replay],
                              cwd=core.VERIF_DIR, capture_output=True,
                              text=True, env=dict(os.environ, VERIF_REPO=root))
      now = subprocess.run([PY, CLI, '--replay', replay], cwd=core.VERIF_DIR,
                           capture_output=True, text=True)
      ok = (before.returncode == 1 and 'VIOLATION property=%s' % f['property']
            in before.stdout and now.returncode == 0 and 'HELD' in now.stdout)
      print('%s %s: before the repair exit=%d, now exit=%d -> %s' % (
          f['property'], f['commit'], before.returncode, now.returncode,
          'ok' if ok else 'UNEXPECTED'))
      if not ok:
        bad += 1
        print(before.stdout[-600:], now.stdout[-600:])
      shutil.rmtree(root, ignore_errors=True)
  finally:
    shutil.rmtree(base, ignore_errors=True)
  return bad


def main(argv):
  mode = argv[1] if len(argv) > 1 else 'smoke'
  if mode == 'smoke':
    bad = determinism({'heap': 120, 'diag': 40, 'mm': 4})
  elif mode == 'determinism':
    n = int(argv[2]) if len(argv) > 2 else 1
    bad = determinism({'heap': 4000 * n, 'diag': 600 * n, 'mm': 200 * n},
                      seed=int(os.environ.get('VERIF_SEED') or 0))
  elif mode == 'sensitivity':
    bad = sensitivity(only=argv[2:])
  elif mode == 'findings':
    bad = findings()
  else:
    raise SystemExit('usage: selftest.py smoke|determinism [n]|sensitivity '
                     '[name-substring ...]')
  print('SELFTEST %s: %s' % (mode, 'OK' if not bad else 'FAILED (%d)' % bad))
  return 0 if not bad else 2


if __name__ == '__main__':
  sys.exit(main(sys.argv))
