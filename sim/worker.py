"""Executes simulated runs in one fresh interpreter.

Modes (always started by sim/cli.py or sim/selftest.py with PYTHONHASHSEED and
single-threaded BLAS set in the environment):

  run     <machine> <verif_seed> <tier> <profile> <start> <count>
          one JSON line with the block summary on stdout
  shrink  <in.json> <out.json>
  replay  <file.json>     prints the VIOLATION line again (exit 1) or HELD
"""
import faulthandler
import importlib
import json
import os
import random
import sys
import traceback
import warnings

sys.path.insert(0, os.path.dirname(os.path.dirname(os.path.abspath(__file__))))

from sim import core  # pylint: disable=g-import-not-at-top
from sim import shrink as shrink_lib  # pylint: disable=g-import-not-at-top

MACHINES = {'heap': 'sim.heap_machine', 'diag': 'sim.diag_machine',
            'mm': 'sim.mm_machine'}


def load_machine(name):
  return importlib.import_module(MACHINES[name])


def quiet():
  warnings.simplefilter('ignore')
  try:
    import numpy as np  # pylint: disable=g-import-not-at-top
    np.seterr(all='ignore')
  except ImportError:
    pass


def generate(machine, verif_seed, tier, profile, index):
  seed = core.run_seed(verif_seed, machine.NAME + ':' + profile, tier, index)
  rng = random.Random(seed)
  desc = machine.generate(rng, tier, profile)
  desc['run_seed'] = seed
  return desc


def run_block(machine_name, verif_seed, tier, profile, start, count,
              want_digests, twice=False):
  machine = load_machine(machine_name)
  out = {'machine': machine_name, 'profile': profile, 'start': start,
         'count': count, 'runs': 0, 'nontrivial': 0, 'ops': 0, 'compared': 0,
         'faults': {}, 'probes': {}, 'states': set(), 'transitions': set(),
         'signatures': set(), 'violations': [], 'harness_errors': [],
         'samples': [], 'skipped': {}, 'digests': {},
         'hashseed': os.environ.get('PYTHONHASHSEED'),
         'optimize': sys.flags.optimize,
         'tree': core.tree_hash()}
  for i in range(start, start + count):
    desc = None
    try:
      desc = generate(machine, verif_seed, tier, profile, i)
      if os.environ.get('VERIF_SELFTEST_HARNESS_ERROR') == '%s:%d' % (
          machine_name, i):
        raise RuntimeError('self-test: simulated harness exception')
      res = machine.execute(desc)
      if twice:
        # same description again in the same interpreter, after regenerating
        # it from the seed: generation and execution must both be pure
        desc2 = generate(machine, verif_seed, tier, profile, i)
        if desc2 != desc:
          raise RuntimeError('generation is not a function of the seed')
        res2 = machine.execute(desc2)
        if res2['digest'] != res['digest']:
          raise RuntimeError('execution differs within one interpreter: '
                             '%s vs %s' % (res['digest'], res2['digest']))
    except Exception:  # pylint: disable=broad-except
      out['harness_errors'].append(
          {'index': i, 'trace': traceback.format_exc()[-2000:], 'desc': desc})
      continue
    out['runs'] += 1
    st = res['stats']
    out['ops'] += st.get('ops', 0)
    out['compared'] += st.get('compared', 0)
    for field in ('faults', 'probes', 'skipped'):
      for k, v in st.get(field, {}).items():
        out[field][k] = out[field].get(k, 0) + v
    out['states'].update(st.get('states', ()))
    out['transitions'].update(st.get('transitions', ()))
    if res.get('nontrivial'):
      out['nontrivial'] += 1
      out['signatures'].add(res['signature'][:11])
    if want_digests:
      out['digests'][str(i)] = res['digest']
    if res.get('violation'):
      out['violations'].append(
          {'index': i, 'desc': desc, 'violation': res['violation']})
    if (len(out['samples']) < 1 and res.get('nontrivial') and
        len(desc.get('ops') or ()) <= 200):
      out['samples'].append(desc)
  for f in ('states', 'transitions', 'signatures'):
    out[f] = sorted(out[f])
  return out


def do_replay(path):
  """Executes a replay file; returns the process exit status."""
  rep = core.read_json(path)
  machine = load_machine(rep['desc']['machine'])
  res = machine.execute(rep['desc'])
  v = res.get('violation')
  exp = rep.get('violation')
  if v:
    print('violation class: %s' % v['cls'])
    print('step %s (%s): %s' % (v.get('step'), v.get('op_kind'), v['detail']))
    if 'expected' in v:
      print('  expected: %s' % v['expected'])
    if 'got' in v:
      print('  got:      %s' % v['got'])
    same = exp is None or (v['cls'] == exp['cls'] and
                           v.get('step') == exp.get('step'))
    print('digest %s%s' % (res['digest'],
                           '' if rep.get('digest') in (None, res['digest'])
                           else ' (recorded %s: DIFFERENT)' % rep['digest']))
    if not same:
      print('REPLAY-MISMATCH: recorded class %s step %s' %
            (exp['cls'], exp.get('step')))
    known = core.match_known(v, core.load_known_findings())
    if known:
      print('KNOWN-FINDING: property=%s %s' % (v['property'], known['what']))
      return 0
    print('VIOLATION property=%s replay=%s' % (v['property'], path))
    return 1
  print('HELD: the recorded history no longer violates %s' %
        (exp['cls'] if exp else rep['desc']['machine']))
  return 0


def main(argv):
  faulthandler.enable()
  limit = int(os.environ.get('VERIF_WORKER_TIMEOUT', '900'))
  faulthandler.dump_traceback_later(limit, exit=True)
  quiet()
  mode = argv[1]
  if mode == 'run':
    machine_name, verif_seed, tier, profile, start, count = argv[2:8]
    out = run_block(machine_name, int(verif_seed), tier, profile, int(start),
                    int(count), '--digests' in argv, '--twice' in argv)
    sys.stdout.write(json.dumps(out) + '\n')
    return 0
  if mode == 'shrink':
    rep = core.read_json(argv[2])
    machine = load_machine(rep['desc']['machine'])
    small, used = shrink_lib.shrink(machine, rep['desc'],
                                    rep['violation']['cls'],
                                    int(os.environ.get('VERIF_SHRINK_EXECS',
                                                       '300')),
                                    float(os.environ.get(
                                        'VERIF_SHRINK_SECONDS', '60')))
    res = machine.execute(small)
    rep['original_ops'] = len(rep['desc']['ops'])
    rep['desc'] = small
    rep['violation'] = res['violation']
    rep['digest'] = res['digest']
    rep['shrink_executions'] = used
    core.write_json(argv[3], rep)
    return 0
  if mode == 'replay':
    return do_replay(argv[2])
  raise SystemExit('unknown mode ' + mode)


if __name__ == '__main__':
  sys.exit(main(sys.argv))
