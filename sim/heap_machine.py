"""C14 (a): the bounded priority container under interleaved producers.

System under test: one real `HeapDict(k)`.  Clients: 1-4 producers, each bound
to a key and an item family, plus a reader that sometimes vandalises what it
was handed.  The seeded scheduler (the order of `ops`) interleaves them.
Reference model: per key, the list of everything pushed; expected answer = the
k largest, descending.
"""
import copy

from sim import core

NAME = 'heap'
PROPERTY = 'C14'
RULE = ('one run = one or two independent HeapDict(k), k in {0,1,2,3,5,8,13}, 1-4 seeded producer '
        'clients (keys of the three documented types incl. 1 / 1.0 collisions; '
        'item families int, float, tuple, str, and objects sortable only via '
        '__lt__) whose pushes are interleaved by the seeded schedule with '
        'reads, reads-that-vandalise-the-returned-copy and reads cancelled inside an item comparison; every read is '
        'compared with a sorted-multiset model. Non-trivial: >= 2 pushes, >= 1 '
        'compared read and >= 1 push landing on a non-empty queue. Distinct: '
        'by (k, sequence of (op, client, position of the pushed item relative '
        'to the retained ones: below / tie-with-smallest / inside / above)).')
COMPONENTS = {'HeapDict': 'real code (matched_markets.methodology.heapdict)',
              'producers/readers': 'simulated clients',
              'reference': 'stub: list of everything pushed, sorted on read'}

KS = (0, 1, 1, 2, 2, 3, 3, 5, 8, 13)
SHAPES = ('ascending', 'descending', 'constant', 'ties', 'random', 'below')
FAMILIES = ('int', 'float', 'tuple', 'str', 'item', 'item_tuple', 'item_eq',
            'rec')
MUTATIONS = ('clear_dict', 'clear_lists', 'pop_first', 'pop_last',
             'append_junk', 'reverse_lists', 'del_key', 'sort_lists')


class InjectedInterrupt(KeyboardInterrupt):
  """The user's "stop" arriving inside an item comparison."""


class Item:
  """Sortable only through __lt__ on score, like TBRMMDesign."""
  __slots__ = ('score', 'uid')
  countdown = None      # comparisons left before an injected interrupt
  nested_fired = False

  def __init__(self, score, uid):
    self.score = score
    self.uid = uid

  nest = None           # (container, key, item): pushed from inside the next
                        # comparison (an item whose __lt__ logs what it sees)

  def __lt__(self, other):
    if Item.countdown is not None:
      Item.countdown -= 1
      if Item.countdown <= 0:
        Item.countdown = None
        raise InjectedInterrupt()
    if Item.nest is not None:
      container, key, item = Item.nest
      Item.nest = None
      Item.nested_fired = True
      container.push(key, item)
    return self.score < other.score

  def __repr__(self):
    return 'Item(%r,#%d)' % (self.score, self.uid)


class EqItem(Item):
  """Ordered by score through __lt__, but == compares a coarser label (like a
  dataclass with a compare=False field): only `<` may decide the ranking."""
  __slots__ = ()

  def __eq__(self, other):
    return isinstance(other, EqItem) and self.uid % 3 == other.uid % 3

  def __hash__(self):
    return self.uid % 3


class Rec(tuple):
  """A record (name, score, uid) ranked by its score through __lt__ ALONE --
  like a namedtuple given a custom __lt__: every other comparison (>, <=, ==)
  is the inherited, lexicographic one and starts with the name.  The container
  promises that `<` is all it needs."""
  __slots__ = ()

  def __new__(cls, score, uid):
    return tuple.__new__(cls, ('%04d' % ((uid * 7919 + 13) % 10000), score,
                               uid))

  score = property(lambda self: self[1])
  uid = property(lambda self: self[2])

  def __lt__(self, other):
    return self[1] < other[1]

  def __repr__(self):
    return 'Rec(%r,#%d)' % (self[1], self[2])


ITEMS = (Item, Rec)


# --------------------------------------------------------------------------
# generation
# --------------------------------------------------------------------------
def _gen_value(rng, family, shape, n_sent, lo_water):
  """The next value of a producer's stream, as a plain integer 'level'."""
  if shape == 'ascending':
    return n_sent
  if shape == 'descending':
    return 1000 - n_sent
  if shape == 'constant':
    return 7
  if shape == 'ties':
    return rng.randrange(3)
  if shape == 'below':
    # First a few ordinary values, then only values below everything so far.
    return rng.randrange(100, 200) if n_sent < 4 else lo_water - 1 - n_sent
  return rng.randrange(-50, 50)


def _encode_level(rng, family, level, uid):
  if family == 'int':
    return level
  if family == 'float':
    return level / 4.0 if rng.random() < 0.8 else float(level)
  if family == 'tuple':
    return [level // 4, level % 4]
  if family == 'str':
    return '%05d' % (level + 5000)
  if family in ('item', 'item_eq', 'rec'):
    return {'s': level, 'u': uid}
  if family == 'item_tuple':
    return {'s': [level // 3, level % 3], 'u': uid}
  raise ValueError(family)


def generate(rng, tier, profile='default'):
  del profile
  ks = [rng.choice(KS)]
  if rng.random() < 0.3:
    ks.append(rng.choice(KS))        # a second, independent container
  n_clients = rng.choice((1, 1, 2, 2, 3, 4))
  key_pool = [['i', 1], ['i', 2], ['i', 0], ['i', -3], ['f', 1.0], ['f', 2.5],
              ['s', 'a'], ['s', 'b'], ['s', '1'], ['f', 0.0], ['s', '']]
  clients = []
  fam_of_key = {}
  for _ in range(n_clients):
    key = rng.choice(key_pool)
    kv = key[1]
    h = rng.randrange(len(ks))
    # Clients whose keys are equal as dict keys share a queue, so their items
    # must be mutually sortable: give them the family already bound to it.
    marker = (h,) + (('n', float(kv)) if key[0] in 'if' else ('s', kv))
    if marker in fam_of_key:
      fam = fam_of_key[marker]
      if fam in ('int', 'float'):
        fam = rng.choice(('int', 'float'))
    else:
      fam = rng.choice(FAMILIES)
      fam_of_key[marker] = fam
    clients.append({'key': key, 'family': fam, 'h': h,
                    'shape': rng.choice(SHAPES)})
  max_ops = 12 if tier == 'quick' else 40
  n_ops = rng.randrange(2, max_ops + 1)
  p_read = rng.choice((0.1, 0.25, 0.4))
  r_scale = rng.random()
  if r_scale < 0.01:
    # a long stream into a big queue: far more pushes than capacity
    n_ops = rng.randrange(80, 400)
    ks[0] = rng.choice((13, 21, 34, 64))
  elif r_scale < 0.0104:
    # a VERY long stream (beyond buffer / trim thresholds such as 8192 or
    # 16384), spread over a few keys, hardly any reads
    n_ops = rng.choice((8200, 8300, 9000, 16500, 20000))
    ks[0] = rng.choice((1, 3, 5, 8))
    p_read = 0.0005
    for cl in clients:
      if cl['shape'] in ('constant', 'ties', 'below'):
        cl['shape'] = 'random'
  elif r_scale < 0.013:
    # capacities beyond platform thresholds (small-int cache at 256, powers
    # of two), overflowed by a few hundred pushes, few reads
    ks[0] = rng.choice((255, 256, 257, 300, 512, 1000))
    n_ops = ks[0] + rng.randrange(20, 260)
    p_read = 0.004
    for cl in clients:
      if cl['h'] == 0 and cl['shape'] in ('constant', 'ties'):
        cl['shape'] = 'random'
  p_mut = rng.choice((0.0, 0.3, 0.6))
  p_intr = rng.choice((0.0, 0.0, 0.15, 0.3))
  p_nest = rng.choice((0.0, 0.0, 0.0, 0.3))
  ops = []
  sent = [0] * n_clients
  uid = 0
  for _ in range(n_ops):
    r = rng.random()
    if r < p_read:
      h = rng.randrange(len(ks))
      if rng.random() < p_intr:
        ops.append({'op': 'read_interrupted', 'h': h,
                    'at': rng.choice((1, 1, 2, 3, 4, 6, 9, 15, 30))})
      elif rng.random() < p_mut:
        ops.append({'op': 'read_mutate', 'h': h,
                    'how': rng.choice(MUTATIONS)})
      else:
        ops.append({'op': 'read', 'h': h})
    else:
      c = rng.randrange(n_clients)
      cl = clients[c]
      level = _gen_value(rng, cl['family'], cl['shape'], sent[c], -100)
      sent[c] += 1
      uid += 1
      ops.append({'op': 'push', 'c': c,
                  'v': _encode_level(rng, cl['family'], level, uid)})
      if (p_nest and cl['family'].startswith('item') and n_clients > 1 and
          rng.random() < p_nest):
        # while this push compares items, another push (other key, same
        # container) happens from inside the comparison
        others = [j for j in range(n_clients)
                  if clients[j]['h'] == cl['h'] and
                  _decode_key(clients[j]['key']) != _decode_key(cl['key'])]
        if others:
          j = rng.choice(others)
          uid += 1
          ops[-1]['nest'] = {
              'c': j, 'v': _encode_level(
                  rng, clients[j]['family'],
                  _gen_value(rng, clients[j]['family'], clients[j]['shape'],
                             sent[j], -100), uid)}
          sent[j] += 1
  if rng.random() < 0.05:
    # an integral FLOAT capacity (n_designs=2.0 is accepted by the parameter
    # class and handed to the container as it is)
    ks[0] = float(ks[0])
  for h in range(len(ks)):
    ops.append({'op': 'read', 'h': h})
  for cl in clients:
    del cl['shape']
  return {'machine': NAME, 'ks': ks, 'clients': clients, 'ops': ops}


# --------------------------------------------------------------------------
# execution
# --------------------------------------------------------------------------
def _decode_key(key):
  t, v = key
  if t == 'i':
    return int(v)
  if t == 'f':
    return float(v)
  return str(v)


def _decode_value(family, v):
  if family == 'tuple':
    return tuple(v)
  if family == 'item':
    return Item(v['s'], v['u'])
  if family == 'item_eq':
    return EqItem(v['s'], v['u'])
  if family == 'item_tuple':
    return Item(tuple(v['s']), v['u'])
  if family == 'rec':
    return Rec(v['s'], v['u'])
  return v


def _sortkey(v):
  return v.score if isinstance(v, ITEMS) else v


def _show(v):
  if isinstance(v, ITEMS):
    return ['item', core.canon(v.score), v.uid]
  return core.canon(v)


def _show_queue(q):
  try:
    return [_show(v) for v in q]
  except TypeError:
    return ['not-a-sequence', core.canon(q)]


def _check_read(res, model, k, step, op_kind):
  """Compare one get_result() answer with the model. Returns a violation."""
  if not isinstance(res, dict):
    return core.violation(PROPERTY, 'H0', step, op_kind,
                          'get_result() did not return a dict')
  for key in res:
    if key not in model:
      return core.violation(PROPERTY, 'H2', step, op_kind,
                            'result has a key nothing was pushed under',
                            got=core.canon(key))
  for key, pushed in model.items():
    exp = sorted(pushed, key=_sortkey, reverse=True)[:max(int(k), 0)]
    got = res.get(key, [])
    if not isinstance(got, list):
      try:
        got = list(got)
      except TypeError:
        return core.violation(
            PROPERTY, 'H1', step, op_kind,
            'queue of key %r is not a sequence' % (key,),
            expected=[_show(v) for v in exp], got=core.canon(got))
    if len(got) != len(exp):
      return core.violation(
          PROPERTY, 'H1', step, op_kind,
          'queue of key %r has %d items, model %d' % (key, len(got), len(exp)),
          expected=[_show(v) for v in exp], got=[_show(v) for v in got])
    if any(isinstance(v, ITEMS) for v in exp):
      ok = all(isinstance(g, ITEMS) for g in got)
      ok = ok and [g.score for g in got] == [e.score for e in exp]
      pushed_uids = {p.uid: p for p in pushed}
      uids = [g.uid for g in got] if ok else []
      ok = ok and len(set(uids)) == len(uids)
      ok = ok and all(u in pushed_uids and pushed_uids[u] is g
                      for u, g in zip(uids, got))
    else:
      try:
        ok = bool(got == exp)
      except Exception:  # pylint: disable=broad-except
        ok = False
    if not ok:
      return core.violation(
          PROPERTY, 'H1', step, op_kind,
          'queue of key %r is not the k largest pushed, descending' % (key,),
          expected=[_show(v) for v in exp], got=[_show(v) for v in got])
  return None


def _mutate(res, how):
  """Vandalise the 'copy' get_result() handed out."""
  if how == 'clear_dict':
    res.clear()
  elif how == 'del_key':
    for key in list(res)[:1]:
      del res[key]
  else:
    for q in res.values():
      if not isinstance(q, list):
        continue
      if how == 'clear_lists':
        del q[:]
      elif how == 'pop_first' and q:
        q.pop(0)
      elif how == 'pop_last' and q:
        q.pop()
      elif how == 'append_junk' and q:
        q.append(q[0])
      elif how == 'reverse_lists':
        q.reverse()
      elif how == 'sort_lists':
        q.sort(key=_sortkey)


_REENTRANT = {}


def _push_is_reentrant(heapdict):
  """Whether push() may be entered from inside an item comparison of the
  same container -- probed once per process on a scratch container, in a
  helper thread so that a self-deadlock is observed instead of suffered."""
  key = core.repo_root()
  if key not in _REENTRANT:
    import threading  # pylint: disable=g-import-not-at-top
    done = []

    def run():
      try:
        h = heapdict.HeapDict(2)
        armed = [True]

        class P:

          def __init__(self, v):
            self.v = v

          def __lt__(self, other):
            if armed[0]:
              armed[0] = False
              h.push('other', P(0))
            return self.v < other.v

        for v in (1, 2, 3):
          h.push('k', P(v))
      except Exception:  # pylint: disable=broad-except
        pass        # raising is not deadlocking; the run itself will report
      done.append(True)

    t = threading.Thread(target=run, daemon=True)
    t.start()
    t.join(5.0)
    _REENTRANT[key] = bool(done)
  return _REENTRANT[key]


def execute(desc):
  heapdict, = core.fresh_modules('heapdict')
  Item.countdown = None       # nothing armed by an earlier run survives
  Item.nest = None
  Item.nested_fired = False
  ks = desc['ks']
  clients = desc['clients']
  try:
    heaps = [heapdict.HeapDict(k) for k in ks]
  except Exception as e:  # pylint: disable=broad-except
    stats = {'ops': 0, 'compared': 0, 'faults': {}, 'probes': {},
             'states': [], 'transitions': [], 'skipped': {}}
    if any(isinstance(k, float) or k == 0 for k in ks):
      # `size: int`: an integral float (or an empty queue) may be refused;
      # which capacities are ACCEPTED is not what C14 is about
      stats['skipped']['capacity_refused_' + type(e).__name__] = 1
      return {'violation': None, 'digest': core.digest_of(['refused']),
              'signature': core.digest_of(['refused']), 'nontrivial': False,
              'stats': stats}
    return {'violation': core.violation(
        PROPERTY, 'H3', None, 'construct',
        'HeapDict(%r) raised %s' % (ks, type(e).__name__)),
            'digest': core.digest_of(['refused']),
            'signature': core.digest_of(['refused']), 'nontrivial': False,
            'stats': stats}
  models = [{} for _ in ks]
  if len(ks) > 1:
    stats_multi = True
  else:
    stats_multi = False
  events = []
  stats = {'ops': 0, 'compared': 0, 'faults': {}, 'probes': {},
           'states': set(), 'transitions': set()}
  probes = stats['probes']
  absig = []
  viol = None
  state = ()
  mutated_since = False

  def probe(name):
    probes[name] = probes.get(name, 0) + 1

  def abstract_state():
    out = []
    for hi, model in enumerate(models):
      k = ks[hi]
      for key, pushed in model.items():
        n = len(pushed)
        fill = 'k0' if k == 0 else ('empty' if n == 0 else
                                    'partial' if n < k else
                                    'full' if n == k else 'evicting')
        out.append((hi, core._sort_key(core.canon(key)), fill))  # pylint: disable=protected-access
    return tuple(sorted(out))

  for step, op in enumerate(desc['ops']):
    kind = op['op']
    stats['ops'] += 1
    if kind == 'push':
      cl = clients[op['c']]
      hi = cl.get('h', 0)
      h, model, k = heaps[hi], models[hi], ks[hi]
      if stats_multi:
        probe('push_with_two_containers_alive')
      key = _decode_key(cl['key'])
      item = _decode_value(cl['family'], op['v'])
      for kk in model:
        if kk == key and type(kk) is not type(key):
          probe('key_collision_int_float')
      pushed = model.setdefault(key, [])
      # classify the push relative to what the model retains
      # (classification is for coverage only; skipped on long streams, where
      # re-sorting everything at every push would be quadratic)
      retained = (sorted(pushed, key=_sortkey, reverse=True)[:max(int(k), 0)]
                  if len(pushed) < 96 else None)
      rel = 'first' if retained is not None else 'long'
      if retained:
        sk = _sortkey(item)
        lo = _sortkey(retained[-1])
        top = _sortkey(retained[0])
        if sk < lo:
          rel = 'below'
        elif not lo < sk:
          rel = 'tie_low'
        elif top < sk:
          rel = 'above'
        else:
          rel = 'inside'
      if k > 0 and len(pushed) >= k:
        probe('eviction')
        if rel == 'below':
          probe('push_smaller_than_all_retained')
        if rel == 'tie_low':
          probe('tie_at_eviction_boundary')
      if k == 0:
        probe('k0_push')
      nest = op.get('nest')
      if nest and not _push_is_reentrant(heapdict):
        # a container that serialises pushes behind a plain lock cannot be
        # pushed into from inside its own comparison (it would wait for
        # itself): C14 does not promise re-entrancy, the nested push is
        # dropped from the history rather than deadlocking the run
        nest = None
        probe('nested_push_skipped_not_reentrant')
      if nest:
        ncl = clients[nest['c']]
        nkey = _decode_key(ncl['key'])
        nitem = _decode_value(ncl['family'], nest['v'])
        Item.nested_fired = False
        Item.nest = (h, nkey, nitem)
      try:
        h.push(key, item)
      except Exception as e:  # pylint: disable=broad-except
        Item.nest = None
        viol = core.violation(PROPERTY, 'H3', step, kind,
                              'push raised %s' % type(e).__name__)
        break
      if nest:
        Item.nest = None
        if Item.nested_fired:
          model.setdefault(nkey, []).append(nitem)
          stats['faults']['push_nested_in_comparison'] = (
              stats['faults'].get('push_nested_in_comparison', 0) + 1)
      pushed.append(item)
      absig.append(('push', op['c'], rel))
      events.append([step, 'push', hi, core.canon(cl['key']), _show(item)])
    else:
      hi = op.get('h', 0)
      h, model, k = heaps[hi], models[hi], ks[hi]
      if kind == 'read_interrupted':
        # a read cancelled inside an item comparison: its answer is lost, but
        # "reading it does not change it" -- later answers must be unaffected
        Item.countdown = op['at']
        try:
          h.get_result()
          interrupted = False
        except InjectedInterrupt:
          interrupted = True
        except Exception as e:  # pylint: disable=broad-except
          viol = core.violation(PROPERTY, 'H3', step, kind,
                                'get_result raised %s' % type(e).__name__)
          break
        finally:
          Item.countdown = None
        if interrupted:
          stats['faults']['read_interrupted_in_comparison'] = (
              stats['faults'].get('read_interrupted_in_comparison', 0) + 1)
        absig.append(('read_interrupted', interrupted))
        events.append([step, kind, hi, interrupted])
        continue
      try:
        res = h.get_result()
      except Exception as e:  # pylint: disable=broad-except
        viol = core.violation(PROPERTY, 'H3', step, kind,
                              'get_result raised %s' % type(e).__name__)
        break
      stats['compared'] += 1
      if mutated_since:
        probe('read_after_snapshot_mutation')
      if any(len(p) < k for p in model.values()):
        probe('k_larger_than_pushes')
      viol = _check_read(res, model, k, step, kind)
      events.append([step, kind, [[core.canon(key), _show_queue(q)]
                                  for key, q in sorted(
                                      res.items(),
                                      key=lambda kv: core._sort_key(  # pylint: disable=protected-access
                                          core.canon(kv[0])))]
                     if isinstance(res, dict) else None])
      if viol:
        break
      if kind == 'read_mutate':
        try:
          _mutate(res, op['how'])
        except Exception:  # pylint: disable=broad-except
          # what was handed out refuses modification (a read-only mapping or
          # list): then the caller cannot disturb the container through it
          probe('returned_copy_not_mutable')
          absig.append(('read_mutate', op['how'], 'refused'))
          continue
        mutated_since = True
        stats['faults']['snapshot_mutation'] = (
            stats['faults'].get('snapshot_mutation', 0) + 1)
        absig.append(('read_mutate', op['how']))
      else:
        absig.append(('read',))
    new_state = abstract_state()
    stats['states'].add(core.digest_of(new_state))
    stats['transitions'].add(core.digest_of([state, kind, new_state]))
    state = new_state

  n_push = sum(1 for a in absig if a[0] == 'push')
  nontrivial = (n_push >= 2 and stats['compared'] >= 1 and
                any(a[0] == 'push' and a[2] != 'first' for a in absig))
  stats['states'] = sorted(stats['states'])
  stats['transitions'] = sorted(stats['transitions'])
  return {'violation': viol,
          'digest': core.digest_of(events),
          'signature': core.digest_of([ks, absig]),
          'nontrivial': bool(nontrivial),
          'stats': stats}


# --------------------------------------------------------------------------
# shrinking support
# --------------------------------------------------------------------------
def normalize(desc):
  """Repair a description after ops or clients were removed."""
  d = copy.deepcopy(desc)
  used = sorted({op['c'] for op in d['ops'] if op['op'] == 'push'} |
                {op['nest']['c'] for op in d['ops'] if op.get('nest')})
  remap = {c: i for i, c in enumerate(used)}
  d['clients'] = [d['clients'][c] for c in used] or d['clients'][:1]
  for op in d['ops']:
    if op['op'] == 'push':
      op['c'] = remap[op['c']]
      if op.get('nest'):
        op['nest']['c'] = remap[op['nest']['c']]
  return d


def simplifications(desc):
  """Smaller / simpler candidate descriptions (config passes)."""
  for hi, cur in enumerate(desc['ks']):
    for k in sorted({0, 1, cur - 1, cur // 2}):
      if 0 <= k < cur:
        d = copy.deepcopy(desc)
        d['ks'][hi] = k
        yield d
  if len(desc['ks']) > 1:
    d = copy.deepcopy(desc)           # everything onto one container
    d['ks'] = d['ks'][:1]
    for cl in d['clients']:
      cl['h'] = 0
    for op in d['ops']:
      if 'h' in op:
        op['h'] = 0
    yield d
  for i, op in enumerate(desc['ops']):
    if op.get('nest'):
      d = copy.deepcopy(desc)
      del d['ops'][i]['nest']
      yield d
  for i, op in enumerate(desc['ops']):
    if op['op'] == 'read_mutate':
      d = copy.deepcopy(desc)
      d['ops'][i] = {'op': 'read'}
      yield d
  # simpler keys
  for i, cl in enumerate(desc['clients']):
    if cl['key'] != ['i', i]:
      d = copy.deepcopy(desc)
      d['clients'][i]['key'] = ['i', i]
      yield d
