"""C08: a diagnostics object never serves stale values.

System under test: real `TBRMMDiagnostics` objects -- one original plus the
deep copies ("snapshots", the way both searches freeze a diagnostics object)
taken along the way.  The seeded history assigns / clears / re-assigns the two
series, reads derived quantities in between, tries assignments the object must
refuse, and lets the caller scribble on the arrays it passed in.  After every
read the answer is compared, bit for bit, with what a freshly built object
holding the same current series and parameters reports.
"""
import copy
import math

from sim import core

NAME = 'diag'
PROPERTY = 'C08'
RULE = ('one run = one TBRMMDiagnostics object (+ deep copies of it) driven by '
        'a seeded history over {set control, clear control, set treatment, '
        'read any public derived quantity, augmented assignment (x += d), deep-copy, build an unrelated sibling object, rejected assignment '
        '(wrong length / 2-D / too short), caller mutates the array it passed '
        'in}; series pool mixes well-correlated, uncorrelated, level-break, '
        'autocorrelated, constant (NaN fit), integer and near-threshold '
        'series of up to two lengths on both sides of n_test + 3; every read '
        'is compared bit-exactly with a freshly built object. Non-trivial: '
        '>= 2 assignments, >= 1 compared read that follows a read of a cached '
        'quantity and a later assignment. Distinct: by (sequence of (op, '
        'object, quantity, series kind), abstract cache-fill path).')
COMPONENTS = {'TBRMMDiagnostics, TBRMMDesignParameters': 'real code',
              'numpy / scipy.stats': 'real code (BLAS pinned to 1 thread)',
              'caller (assignments, reads, copies, array mutation)':
                  'simulated client',
              'reference': 'the real class, freshly constructed per read'}

READ_QS = ('x', 'y', 'corr', 'required_impact', 'pretestfit', 'bbtest',
           'dwtest', 'aatest', 'corr_test', 'tests_ok', 'tbrfit',
           'estimate_required_impact')
CACHE_SLOTS = ('_corr', '_required_impact', '_pretestfit', '_aatest',
               '_bbtest', '_dwtest', '_tests_ok')
RHOS = (0.5, 0.9, 0.995, -0.3, 0.0, 1.0, -1.0, 1.5)


# --------------------------------------------------------------------------
# generation
# --------------------------------------------------------------------------
def _round(v):
  return round(v, 4)


def _make_series(rng, kind, base, n):
  """A series of length n of the given kind; base is the common trend."""
  if kind == 'good':
    a, b = rng.uniform(-5, 50), rng.uniform(0.3, 3)
    s = rng.choice((0.01, 0.05, 0.2))
    return [_round(a + b * v + rng.gauss(0, s)) for v in base]
  if kind == 'near':
    # correlation around the acceptance threshold
    s = rng.uniform(0.4, 0.9) * _sd(base)
    return [_round(2 + v + rng.gauss(0, s)) for v in base]
  if kind == 'noise':
    return [_round(rng.gauss(20, 3)) for _ in range(n)]
  if kind == 'break':
    cut = rng.randrange(1, n)
    jump = rng.choice((-1, 1)) * rng.uniform(2, 6) * (_sd(base) + 0.5)
    return [_round(1 + v + (jump if i >= cut else 0) + rng.gauss(0, 0.05))
            for i, v in enumerate(base)]
  if kind == 'ar':
    out, e = [], 0.0
    rho = rng.choice((0.9, 0.97, -0.9))
    for v in base:
      e = rho * e + rng.gauss(0, 0.3)
      out.append(_round(3 + v + e))
    return out
  if kind == 'const':
    c = rng.choice((0.0, 1.0, 12.5, -3.0))
    return [c] * n
  if kind == 'ints':
    return [int(round(5 + 3 * v + rng.gauss(0, 1))) for v in base]
  if kind == 'nan':
    out = [_round(1 + v + rng.gauss(0, 0.1)) for v in base]
    out[rng.randrange(n)] = rng.choice(('nan', 'inf'))
    return out
  if kind == 'big':
    return [_round(1e6 * (1 + v) + rng.gauss(0, 100)) for v in base]
  if kind == 'tiny':
    # shares of a huge total: absolute tolerances swallow everything
    return [(2 + v + rng.gauss(0, 0.5)) * 1e-9 for v in base]
  raise ValueError(kind)


def _sd(vs):
  m = sum(vs) / len(vs)
  return math.sqrt(sum((v - m) ** 2 for v in vs) / max(1, len(vs) - 1))


def _base(rng, n):
  style = rng.choice(('walk', 'season', 'trend'))
  out, v = [], rng.uniform(5, 20)
  for i in range(n):
    if style == 'walk':
      v += rng.gauss(0, 1)
    elif style == 'season':
      v = 10 + 4 * math.sin(i * 2 * math.pi / 7.0) + rng.gauss(0, 0.7)
    else:
      v = 5 + 0.4 * i + rng.gauss(0, 0.8)
    out.append(v)
  return out


KINDS = ('good', 'good', 'good', 'near', 'noise', 'break', 'ar', 'const',
         'ints', 'nan', 'big', 'tiny', 'tiny')


def _gen_par(rng):
  par = {'n_test': rng.choice((1, 2, 3, 4, 7, 12)), 'iroas': 1.0}
  if rng.random() < 0.5:
    par['sig_level'] = rng.choice((0.5, 0.8, 0.9, 0.95, 0.975, 0.99, 0.9001))
  if rng.random() < 0.5:
    par['power_level'] = rng.choice((0.5, 0.8, 0.9, 0.99, 0.805, 0.8004))
  if rng.random() < 0.4:
    par['flevel'] = rng.choice((0.9, 0.95, 0.99, 0.995, 0.9003))
  if rng.random() < 0.5:
    par['min_corr'] = rng.choice((0.8, 0.9, 0.95, 0.99, 0.905))
  return par


def _near_par(rng, par):
  """Parameters that differ from `par` only slightly (beyond the 2nd or 3rd
  decimal of one or two levels): what a coarsely keyed cache would confuse."""
  out = dict(par)
  defaults = {'sig_level': 0.9, 'power_level': 0.8, 'flevel': 0.9,
              'min_corr': 0.8}
  for k in rng.sample(sorted(defaults), rng.choice((1, 1, 2))):
    v = out.get(k, defaults[k])
    out[k] = round(min(v + rng.choice((0.004, 0.0004, 0.00004)), 0.9999), 6)
  return out


def _gen_read(rng, bias_verdict):
  r = rng.random()
  if r < bias_verdict:
    q = 'tests_ok'
  else:
    q = rng.choice(READ_QS)
  op = {'op': 'read', 'o': 0, 'q': q}
  if q == 'tbrfit':
    op['args'] = [_round(rng.uniform(0, 30)), _round(rng.uniform(0, 30))]
  elif q == 'estimate_required_impact':
    op['args'] = [rng.choice(RHOS)]
  return op


def generate(rng, tier, profile='default'):
  del profile
  par = _gen_par(rng)
  n_test = par['n_test']
  # lengths on both sides of n_test + 3 (A/A test available or not)
  def pick_len():
    r = rng.random()
    if r < 0.02:
      return n_test + 3 + rng.choice((126, 127, 128, 129, 255, 256, 257, 400))
    if r < 0.2:
      return max(3, n_test + rng.choice((0, 1, 2)))
    if r < 0.3:
      return 3
    return n_test + 3 + rng.randrange(0, 30)
  lengths = [pick_len()]
  if rng.random() < 0.35:
    lengths.append(pick_len())
  series, kinds, lens = [], [], []
  pairs = []      # (original, look-alike): confusable series
  for n in lengths:
    base = _base(rng, n)
    first = len(series)
    for _ in range(rng.randrange(3, 6)):
      kind = rng.choice(KINDS)
      series.append(_make_series(rng, kind, base, n))
      kinds.append(kind)
      lens.append(n)
    # look-alikes of an earlier series: same length, same mean / sum / value
    # multiset / end points but another order -- what a cheap "nothing
    # changed" test would confuse
    for _ in range(rng.choice((0, 1, 1, 2))):
      src_idx = rng.randrange(first, len(series))
      src = list(series[src_idx])
      pairs.append((src_idx, len(series)))
      how = rng.choice(('perm', 'rev', 'same_ends', 'same_mean', 'near_dup',
                        'near_dup', 'affine', 'bitcast', 'crc_twin'))
      if how == 'crc_twin' and n >= 4 and all(
          isinstance(v, float) and v == v and abs(v) < 1e300 for v in src):
        # another series with the same CRC-32: a checksum used as identity
        i, j = rng.sample(range(n), 2)
        twin = core.crc32_twin(src, i, j)
        if twin is not None and all(v == v for v in twin):
          src = twin
      elif how == 'bitcast' and all(isinstance(v, float) for v in src):
        # another dtype with the very same bytes: the int64 words of the
        # float64 values (what a raw-buffer comparison would confuse)
        import struct  # pylint: disable=g-import-not-at-top
        src = [struct.unpack('<q', struct.pack('<d', v))[0] for v in src]
      elif how == 'affine' and all(not isinstance(v, str) for v in src):
        # exactly affinely related: |correlation| = 1, required_impact raises
        a, b = rng.choice((2, -2, 0.5, 4)), rng.choice((0, 3, -8))
        src = [a * v + b for v in src]
      elif how == 'near_dup':
        # equal up to a relative 1e-6 .. 1e-9 in a few points: what a tolerant
        # "unchanged" test (allclose, rounding) would confuse
        for i in rng.sample(range(n), rng.choice((1, 2, 3))):
          if not isinstance(src[i], str):
            src[i] = src[i] * (1 + rng.choice((1e-6, 1e-7, 1e-9))) + 1e-12
      elif how == 'perm':
        rng.shuffle(src)
      elif how == 'rev':
        src.reverse()
      elif how == 'same_ends' and n >= 4:
        mid = src[1:-1]
        rng.shuffle(mid)
        src = src[:1] + mid + src[-1:]
      elif n >= 4 and all(not isinstance(v, str) for v in src):
        i, j = rng.sample(range(n), 2)
        d = _round(rng.uniform(0.5, 3))
        src[i] = _round(src[i] + d)
        src[j] = _round(src[j] - d)
      series.append(src)
      kinds.append(how)
      lens.append(n)
  idx_by_len = {}
  for i, n in enumerate(lens):
    idx_by_len.setdefault(n, []).append(i)
  init_y = rng.choice(idx_by_len[lengths[0]])
  max_ops = 14 if tier == 'quick' else 40
  n_ops = rng.randrange(2, max_ops + 1)
  bias_verdict = rng.choice((0.1, 0.3, 0.5))
  p_fault = rng.choice((0.0, 0.0, 0.1, 0.2))
  p_alias = rng.choice((0.0, 0.0, 0.0, 0.15))
  p_snap = rng.choice((0.03, 0.08, 0.15))
  p_churn = rng.choice((0.0, 0.0, 0.0, 0.0, 0.02))
  p_pair = rng.choice((0.0, 0.05, 0.12)) if pairs else 0.0
  objs = [0]
  cur_len = {0: lengths[0]}
  ops = []
  for _ in range(n_ops):
    o = rng.choice(objs)
    r = rng.random()
    usable = [pr for pr in pairs if lens[pr[0]] == cur_len[o]] if p_pair else []
    if usable and rng.random() < p_pair:
      # a confusable pair back to back: one series, a read, its look-alike,
      # the same read again -- what any "nothing changed" shortcut must survive
      a, b = rng.choice(usable)
      if rng.random() < 0.5:
        a, b = b, a
      rd = _gen_read(rng, bias_verdict)
      rd['o'] = o
      how = rng.choice(('array', 'array', 'list'))
      if rng.random() < 0.75:
        for sidx in (a, b):
          ops.append({'op': 'set_x', 'o': o, 's': sidx, 'as': how})
          ops.append(dict(rd))
      else:
        c = rng.choice(idx_by_len[cur_len[o]])
        for sidx in (a, b):
          ops.append({'op': 'set_y', 'o': o, 's': sidx, 'as': how})
          ops.append({'op': 'set_x', 'o': o, 's': c, 'as': how})
          ops.append(dict(rd))
      continue
    if r < p_fault:
      which = rng.choice(('x', 'x', 'y'))
      how = (rng.choice(('len_short', 'len_long', '2d', 'tiny', 'empty'))
             if which == 'x' else rng.choice(('2d', 'tiny', 'empty', 'scalar')))
      ops.append({'op': 'reject_' + which, 'o': o, 'how': how})
    elif r < p_fault + p_alias:
      ops.append({'op': 'caller_mutates', 'o': o,
                  'which': rng.choice(('x', 'y')), 'pos': rng.randrange(64),
                  'v': _round(rng.uniform(-100, 100))})
    elif r < p_fault + p_alias + p_churn:
      # many short-lived sibling objects: evictions of bounded caches, reuse
      # of object ids
      ops.append({'op': 'churn', 'n': rng.choice((40, 130, 140, 260)),
                  's': rng.randrange(len(series))})
    elif r < p_fault + p_alias + p_churn + p_snap and len(objs) < 4:
      new = max(objs) + 1
      if rng.random() < 0.4:
        # an unrelated sibling object built mid-history (shares only the
        # class), half of the time with another parameter object
        sidx = rng.randrange(len(series))
        ops.append({'op': 'new', 'id': new, 's': sidx,
                    'p': rng.randrange(2)})
        cur_len[new] = lens[sidx]
      else:
        ops.append({'op': 'snapshot', 'o': o, 'id': new,
                    'how': rng.choice(('deepcopy', 'deepcopy', 'pickle'))})
        cur_len[new] = cur_len[o]
      objs.append(new)
    else:
      r2 = rng.random()
      same_len = idx_by_len[cur_len[o]]
      if r2 < 0.04:
        # augmented assignment: Python reads the property, updates the array
        # it was handed IN PLACE and assigns that very object back
        ops.append({'op': 'iadd', 'o': o,
                    'which': rng.choice(('x', 'x', 'x', 'y')),
                    'd': rng.choice((1, 2.5, -0.75, 1000, 1e-9))})
      elif r2 < 0.28:
        pick = (rng.choice(same_len) if rng.random() < 0.93
                else rng.randrange(len(series)))
        ops.append({'op': 'set_x', 'o': o, 's': pick,
                    'as': rng.choice(('list', 'array', 'array', 'tuple',
                                      'pyarray', 'series', 'lazy',
                                      'probe_elems'))})
        if ops[-1]['as'] in ('lazy', 'probe_elems'):
          ops[-1]['lazy_q'] = rng.choice(('tests_ok', 'corr', 'required_impact',
                                          'bbtest', 'aatest', 'dwtest'))
        if ops[-1]['as'] == 'lazy' and rng.random() < 0.3:
          # ... or it ASSIGNS the treatment series on the way (nested set);
          # the control series fits either the old or the new length
          s2 = rng.randrange(len(series))
          ops[-1]['lazy_set_y'] = s2
          if rng.random() < 0.5:
            ops[-1]['s'] = rng.choice(idx_by_len[lens[s2]])
          cur_len[o] = lens[s2]
      elif r2 < 0.33:
        ops.append({'op': 'clear_x', 'o': o})
      elif r2 < 0.42:
        s = rng.randrange(len(series))
        ops.append({'op': 'set_y', 'o': o, 's': s,
                    'as': rng.choice(('list', 'array', 'array', 'tuple'))})
        cur_len[o] = lens[s]
      else:
        op = _gen_read(rng, bias_verdict)
        op['o'] = o
        ops.append(op)
  # always finish by reading the joint verdict and one more quantity
  ops.append({'op': 'read', 'o': 0, 'q': 'tests_ok'})
  ops.append({'op': 'read', 'o': 0, 'q': rng.choice(READ_QS[2:10])})
  r_par2 = rng.random()
  if r_par2 < 0.08:
    # hash twins: different levels with the same hash() (a cache keyed by
    # hash(args) confuses them); everything else equal
    a, b = rng.choice(core.HASH_TWINS)
    which = rng.choice(('sig_level', 'power_level'))
    if rng.random() < 0.5:
      a, b = b, a
    par[which] = a
    par2 = dict(par)
    par2[which] = b
  elif r_par2 < 0.5:
    par2 = _near_par(rng, par)
  else:
    par2 = _gen_par(rng)
    par2['n_test'] = rng.choice((par['n_test'], par['n_test'], 1, 2, 5))
  return {'machine': NAME, 'par': par, 'par2': par2, 'series': series,
          'kinds': kinds, 'init_y': init_y, 'ops': ops}


# --------------------------------------------------------------------------
# execution
# --------------------------------------------------------------------------
def _decode_series(s):
  vals = [core.dec_float(v) for v in s]
  return vals


def _container(np, vals, how):
  """The caller's container: list, tuple, ndarray, or another buffer exporter
  that numpy can wrap WITHOUT copying (array.array, pandas Series)."""
  if how == 'array':
    return np.array(vals)
  if how == 'tuple':
    return tuple(vals)
  if how in ('pyarray', 'series') and all(
      isinstance(v, float) for v in vals):
    if how == 'pyarray':
      import array  # pylint: disable=g-import-not-at-top
      return array.array('d', vals)
    import pandas as pd  # pylint: disable=g-import-not-at-top
    return pd.Series(np.array(vals))
  return list(vals)


class LazySeries:
  """A series that materialises on demand -- and whose materialisation looks
  at the diagnostics object it is being assigned to (a report that prints the
  current correlation while it builds the next control series): a read NESTED
  inside an assignment."""

  def __init__(self, vals, target, quantity, nested_set=None):
    self._vals = list(vals)
    self._target = target
    self._quantity = quantity
    self.reads = 0
    # an ASSIGNMENT nested in the assignment: materialising the control series
    # first replaces the treatment series of the target (a loader that
    # delivers both series and installs the treatment side on the way)
    self._nested_set = nested_set
    self.set_done = None      # None: not fired; True: done; or the exception

  def __len__(self):
    return len(self._vals)

  def __array__(self, dtype=None, copy=None):
    import numpy as np  # pylint: disable=g-import-not-at-top
    if self._target is not None and self._nested_set is not None:
      if self.set_done is None:
        try:
          self._target.y = np.array(self._nested_set)
          self.set_done = True
        except Exception as e:  # pylint: disable=broad-except
          self.set_done = e
    elif self._target is not None:
      try:
        getattr(self._target, self._quantity)
        self.reads += 1
      except Exception:  # pylint: disable=broad-except
        pass
    return np.array(self._vals, dtype=dtype)


import fractions  # pylint: disable=g-import-not-at-top,wrong-import-position


class ProbeFraction(fractions.Fraction):
  """An exact number whose arithmetic looks at a diagnostics object once: an
  element of an object-dtype series, so that caller code runs INSIDE numpy
  reductions such as mean() while a setter is half-way through."""
  hook = None        # (target, quantity) while armed

  def _peek(self):
    if ProbeFraction.hook is not None:
      target, quantity = ProbeFraction.hook
      ProbeFraction.hook = None
      try:
        getattr(target, quantity)
      except Exception:  # pylint: disable=broad-except
        pass

  def __add__(self, other):
    self._peek()
    return fractions.Fraction(self) + other

  def __radd__(self, other):
    self._peek()
    return other + fractions.Fraction(self)


def _scribble(container, pos, value):
  """The caller writes into its own container; False if it cannot."""
  try:
    if hasattr(container, 'iloc'):
      container.iloc[pos % len(container)] = float(value)
    elif hasattr(container, 'dtype'):
      container[pos % len(container)] = container.dtype.type(value)
    else:
      container[pos % len(container)] = float(value)
    return True
  except (OverflowError, ValueError, TypeError):
    return False


def _bad_value(np, how, n):
  if how == 'len_short':
    return [1.0] * max(0, n - 1)
  if how == 'len_long':
    return [1.0] * (n + 1)
  if how == '2d':
    return [[1.0, 2.0, 3.0]] * 2 if n != 2 else [[1.0, 2.0], [3.0, 4.0]]
  if how == 'tiny':
    return [1.0, 2.0]
  if how == 'empty':
    return []
  if how == 'scalar':
    return 5.0
  raise ValueError(how)


def _do_read(obj, q, args):
  """(ok, value-or-exception) of one public read."""
  try:
    if q == 'tbrfit':
      return True, obj.tbrfit(*args)
    if q == 'estimate_required_impact':
      return True, obj.estimate_required_impact(*args)
    return True, getattr(obj, q)
  except Exception as e:  # pylint: disable=broad-except
    return False, e


class _Tracked:
  """What the harness knows about one object under test."""

  def __init__(self, obj, y, x, pk=None):
    self.obj = obj
    self.pk = pk          # parameter kwargs of this object
    self.y = y            # tracked current series (numpy arrays or None)
    self.x = x
    self.caller_y = None  # the very array object the caller passed in
    self.caller_x = None
    self.alias_y = False  # caller has scribbled on it since the assignment
    self.alias_x = False
    self.read_since_assign = set()
    self.cached_before_assign = False
    self.stale_opportunity = False


class _ReferenceRefused(Exception):
  """A freshly built object could not be given the series asked for."""


_REENTRANT = {}


def _setter_is_reentrant(tbrmmdiagnostics, tbrmmdesignparameters):
  """Whether a series may be assigned from inside the materialisation of
  another one being assigned (false for setters serialised by a plain lock:
  they would wait for themselves).  Probed once per process on a scratch
  object, in a helper thread, so that a self-deadlock is observed instead of
  suffered."""
  key = core.repo_root()
  if key not in _REENTRANT:
    import threading  # pylint: disable=g-import-not-at-top
    done = []

    def run():
      try:
        par = tbrmmdesignparameters.TBRMMDesignParameters(n_test=1, iroas=1.0)
        y = [1.0, 2.0, 4.0, 3.0, 5.0, 7.0]
        obj = tbrmmdiagnostics.TBRMMDiagnostics(list(y), par)
        obj.x = LazySeries([2.0, 1.0, 4.0, 6.0, 5.0, 9.0], obj, None,
                           nested_set=[v + 1 for v in y])
      except Exception:  # pylint: disable=broad-except
        pass        # raising is not deadlocking
      done.append(True)

    t = threading.Thread(target=run, daemon=True)
    t.start()
    t.join(5.0)
    _REENTRANT[key] = bool(done)
  return _REENTRANT[key]


def execute(desc):
  import numpy as np  # pylint: disable=g-import-not-at-top
  ProbeFraction.hook = None      # nothing armed by an earlier run survives
  tbrmmdesignparameters, tbrmmdiagnostics = core.fresh_modules(
      'tbrmmdesignparameters', 'tbrmmdiagnostics')
  np.seterr(all='ignore')
  par_kwargs = dict(desc['par'])
  par2_kwargs = dict(desc.get('par2') or desc['par'])
  series = [_decode_series(s) for s in desc['series']]
  kinds = desc.get('kinds') or ['?'] * len(series)

  def new_par(pk=None):
    return tbrmmdesignparameters.TBRMMDesignParameters(**(pk or par_kwargs))

  # The reference lives in a private module set (its own simulated process),
  # re-loaded whenever the series it is asked about change, so that neither
  # the object under test nor an earlier reference can have left anything in
  # process-global state (class attributes, module-level caches) that the
  # reference could pick up.
  ref_sets = {}     # series fingerprint -> module set (a small LRU)

  def fresh(y, x, pk=None):
    pk = pk or par_kwargs
    def fp(a):
      if a is None:
        return None
      a = np.asarray(a)
      if a.dtype.kind == 'O':       # tobytes() of objects is their addresses
        return repr(core.canon(a)), 'O'
      return a.tobytes(), str(a.dtype)
    key = (fp(y), fp(x), tuple(sorted(pk.items())))
    mods = ref_sets.pop(key, None)
    if mods is None:
      mods = core.reference_modules('tbrmmdesignparameters',
                                    'tbrmmdiagnostics')
      if len(ref_sets) >= 6:
        ref_sets.pop(next(iter(ref_sets)))
    ref_sets[key] = mods
    cur_set[0] = mods
    rpar, rdiag = mods
    try:
      with mods.active():
        f = rdiag.TBRMMDiagnostics(
            np.array(y), rpar.TBRMMDesignParameters(**pk))
        if x is not None:
          f.x = np.array(x)
    except Exception as e:  # pylint: disable=broad-except
      raise _ReferenceRefused(e)
    return f

  cur_set = [None]

  def as_reference():
    """By-name lookups (pickle of own instances, late imports) made on the
    reference's behalf must find the module set of the LAST fresh() object."""
    return cur_set[0].active()

  def ref_container(vals, how):
    if how == 'lazy':
      # the same container protocol on both sides (what a setter accepts is
      # not C08's business); only the nested read is the object's alone
      return LazySeries(vals, None, None)
    return _container(np, vals, how)

  def same_series(a, b):
    if a is None or b is None:
      return a is None and b is None
    return core.canon(np.asarray(a)) == core.canon(np.asarray(b))

  stats = {'ops': 0, 'compared': 0, 'faults': {}, 'probes': {}, 'skipped': {},
           'states': set(), 'transitions': set()}

  def probe(name):
    stats['probes'][name] = stats['probes'].get(name, 0) + 1

  def fault(name):
    stats['faults'][name] = stats['faults'].get(name, 0) + 1

  y0 = np.array(series[desc['init_y']])
  try:
    first = tbrmmdiagnostics.TBRMMDiagnostics(y0, new_par())
  except Exception as e:  # pylint: disable=broad-except
    # the library refuses this treatment series (or these parameters)
    # outright: what it accepts is not C08's business, nothing to drive
    stats['skipped']['construction_refused_' + type(e).__name__] = 1
    stats['states'] = []
    stats['transitions'] = []
    return {'violation': None, 'digest': core.digest_of(['refused']),
            'signature': core.digest_of(['refused']), 'nontrivial': False,
            'stats': stats}
  objs = {0: _Tracked(first, y0.copy(), None, par_kwargs)}
  events = []
  absig = []
  viol = None
  n_assign = 0
  stale_read = False
  prev_state = None

  def abstract_state(t):
    # coverage only (private slots are never compared): must not raise
    try:
      obj = t.obj
      fill = tuple(int(getattr(obj, s, None) is not None)
                   for s in CACHE_SLOTS)
      verdict = getattr(obj, '_tests_ok', 'n/a')
      verdict = None if verdict is None else bool(verdict)
    except Exception:  # pylint: disable=broad-except
      fill, verdict = ('?',), '?'
    return (t.x is not None, fill, verdict)

  try:
    for step, op in enumerate(desc['ops']):
      kind = op['op']
      stats['ops'] += 1
      if kind == 'churn':
        base_series = series[op['s']]
        for j in range(op['n']):
          try:
            tmp = tbrmmdiagnostics.TBRMMDiagnostics(
                np.array(base_series, dtype=float) * (1.0 + j), new_par())
            tmp.x = np.array(base_series[::-1], dtype=float) + j
            tmp.bbtest  # pylint: disable=pointless-statement
            tmp.required_impact  # pylint: disable=pointless-statement
          except Exception:  # pylint: disable=broad-except
            pass
          tmp = None
        fault('churn_of_short_lived_objects')
        events.append([step, kind, op['n']])
        absig.append((kind,))
        continue
      if kind == 'new':
        yn = np.array(series[op['s']])
        pk = par2_kwargs if op.get('p') else par_kwargs
        try:
          sib = tbrmmdiagnostics.TBRMMDiagnostics(yn, new_par(pk))
        except Exception:  # pylint: disable=broad-except
          stats['skipped']['sibling_refused'] = 1
          events.append([step, kind, op['id'], 'refused'])
          continue
        objs[op['id']] = _Tracked(sib, yn.copy(), None, pk)
        fault('sibling_object_built')
        if op.get('p'):
          probe('sibling_with_other_parameters')
        events.append([step, kind, op['id'], op['s']])
        absig.append((kind, kinds[op['s']]))
        continue
      t = objs.get(op.get('o', 0))
      if t is None:
        # its creation was refused by the library (or shrunk away)
        events.append([step, kind, 'no such object'])
        continue
      obj = t.obj
      ev = None
      if kind in ('set_x', 'set_y'):
        vals = series[op['s']]
        exact = None
        nested_y = None
        if (op.get('as') == 'lazy' and kind == 'set_x' and
            op.get('lazy_set_y') is not None and
            _setter_is_reentrant(tbrmmdiagnostics, tbrmmdesignparameters)):
          nested_y = series[op['lazy_set_y']]
          value = LazySeries(vals, obj, None, nested_set=nested_y)
        elif op.get('as') == 'lazy':
          value = LazySeries(vals, obj, op.get('lazy_q', 'tests_ok'))
          fault('read_nested_in_assignment')
        elif op.get('as') == 'probe_elems' and kind == 'set_x' and all(
            isinstance(v, float) and v == v and abs(v) < 1e300 for v in vals):
          # an object-dtype series of exact numbers; their arithmetic reads the
          # object once (inside whatever reduction the setter performs)
          value = [ProbeFraction(v) for v in vals]
          exact = [fractions.Fraction(v) for v in vals]
          ProbeFraction.hook = (obj, op.get('lazy_q', 'tests_ok'))
          fault('read_nested_in_element_arithmetic')
        else:
          value = _container(np, vals, op.get('as', 'list'))
        which = kind[-1]
        try:
          if which == 'x':
            obj.x = value
          else:
            obj.y = value
          raised = None
        except Exception as e:  # pylint: disable=broad-except
          raised = e
        ProbeFraction.hook = None
        if nested_y is not None and value.set_done is not None:
          if value.set_done is True:
            # Two assignments overlapped.  Which of them prevails is not C08's
            # business (the nested one may complete first and stand, or be
            # overwritten by a setter that commits a snapshot taken earlier):
            # the current series are what the object itself reports.  C08's
            # business is that these are series a freshly built object can
            # hold, and that everything reported afterwards matches them.
            if raised is not None and not isinstance(raised, ValueError):
              stats['skipped']['assignment_failed_non_valueerror'] = 1
              break
            try:
              ry, rx = obj.y, obj.x
              t.y = np.array(ry)
              t.x = None if rx is None else np.array(rx)
            except Exception:  # pylint: disable=broad-except
              stats['skipped']['series_unreadable_after_nested_assignment'] = 1
              break
            t.caller_x = t.caller_y = None
            t.alias_x = t.alias_y = False
            t.read_since_assign = set()
            n_assign += 1
            fault('assignment_nested_in_assignment')
            try:
              fresh(t.y, t.x, t.pk)
              unholdable = None
            except _ReferenceRefused as e:
              unholdable = e.args[0]
            if unholdable is not None:
              viol = core.violation(
                  PROPERTY, 'D3', step, kind,
                  'after an assignment nested in an assignment the object holds '
                  'series that no freshly built object accepts',
                  expected='a state some fresh object can hold',
                  got=[core.canon(unholdable), list(np.shape(t.y)),
                       None if t.x is None else list(np.shape(t.x))])
              break
            events.append([step, kind, op.get('o', 0), op['s'], 'nested',
                           core.canon(raised), core.canon(t.y),
                           core.canon(t.x)])
            absig.append((kind, op.get('o', 0), kinds[op['s']], 'nested'))
            continue
          elif not isinstance(value.set_done, ValueError):
            stats['skipped']['assignment_failed_non_valueerror'] = 1
            break
          else:
            probe('nested_assignment_refused')
        # the model: what a fresh object with the same prior series does
        f = fresh(t.y, t.x, t.pk)
        try:
          with as_reference():
            if which == 'x' and exact is not None:
              f.x = list(exact)
            elif which == 'x':
              f.x = ref_container(vals, op.get('as', 'list'))
            else:
              f.y = ref_container(vals, op.get('as', 'list'))
          f_raised = None
        except Exception as e:  # pylint: disable=broad-except
          f_raised = e
        if type(raised).__name__ != type(f_raised).__name__:   # by NAME: the two
        # objects live in different module sets, so their classes are never identical
          viol = core.violation(
              PROPERTY, 'D3', step, kind,
              'assignment outcome differs from a fresh object with the same '
              'series', expected=core.canon(f_raised), got=core.canon(raised))
          break
        if raised is None:
          if any(getattr(obj, s, None) is not None for s in CACHE_SLOTS):
            t.cached_before_assign = True
          if t.read_since_assign:
            t.stale_opportunity = True
            if 'tests_ok' in t.read_since_assign:
              verdict = getattr(obj, '_tests_ok', None)
              probe('assign_after_verdict_cached_%s' % (
                  'none' if verdict is None else bool(verdict)))
          n_assign += 1
          if which == 'x':
            t.x = np.array(vals) if exact is None else np.array(exact,
                                                                dtype=object)
            t.caller_x = value if not isinstance(
                value, (list, tuple, LazySeries)) else None
            t.alias_x = False
          else:
            t.y = np.array(vals)
            t.x = None
            t.caller_y = value if not isinstance(
                value, (list, tuple, LazySeries)) else None
            t.caller_x = None
            t.alias_y = False
            t.alias_x = False
          t.read_since_assign = set()
        else:
          if not isinstance(raised, ValueError):
            # a non-ValueError failure may leave the object half-assigned; the
            # property has no opinion (no fresh object can hold such series)
            stats['skipped']['assignment_failed_non_valueerror'] = 1
            break
          probe('natural_rejection')
        ev = [step, kind, op.get('o', 0), op['s'], core.canon(raised)]
        absig.append((kind, op.get('o', 0), kinds[op['s']]))
      elif kind == 'iadd':
        which = op['which']
        cur = t.x if which == 'x' else t.y
        if cur is not None:
          try:
            held = obj.x if which == 'x' else obj.y
          except Exception:  # pylint: disable=broad-except
            held = None
          if held is not None and (
              t.alias_x if which == 'x' else t.alias_y) and (
                  not same_series(held, cur)):
            # the caller scribbled on the array it had passed in: an object that
            # aliases it now holds (and adds to) the scribbled series
            probe('object_aliases_caller_array')
            cur = np.array(held)
          elif held is not None and np.asarray(held).dtype != cur.dtype and (
              np.asarray(held).shape == cur.shape):
            # an implementation that stores its series in ONE dtype (float64
            # copies of an integer series, say) adds to the converted values:
            # convert(series) + d, not convert(series + d) -- they differ in
            # the last bit for integers beyond 2**53
            probe('object_stores_converted_series')
            cur = np.array(held)
        d = op['d']
        if cur is not None and cur.dtype.kind in 'iub':
          d = int(d) if int(d) != 0 else 1     # keep integer series integer
        def do_iadd(target, d=d, which=which):
          if which == 'x':
            target.x += d
          else:
            target.y += d
        try:
          do_iadd(obj)
          raised = None
        except Exception as e:  # pylint: disable=broad-except
          raised = e
        # Whether `+=` is ACCEPTED is not C08's business (an implementation may
        # hand out read-only arrays from a fresh object and writable ones from a
        # deep copy of it): the model follows what the object did.  C08 only
        # says that what it reports afterwards is not stale.
        if raised is None and cur is None:
          # `None += d` cannot succeed: the object handed out a control series
          # where a fresh object (none assigned since the last treatment series)
          # reports None
          viol = core.violation(
              PROPERTY, 'D2', step, kind,
              'augmented assignment to %s accepted although no such series is '
              'held: the object reported a stale series' % which,
              expected=None, got='accepted')
          break
        if raised is None:
          try:
            new = np.array(cur)
            new += d
          except Exception:  # pylint: disable=broad-except
            # the object accepted an addition numpy refuses on the series the
            # model holds: nothing to compare the rest of the run with
            stats['skipped']['iadd_model_failed'] = 1
            break
          if t.read_since_assign:
            t.stale_opportunity = True
          n_assign += 1
          if which == 'x':
            t.x = new
          else:
            t.y = new
            t.x = None
          t.caller_x = t.caller_y = None
          t.alias_x = t.alias_y = False
          t.read_since_assign = set()
          fault('augmented_assignment_in_place')
        else:
          probe('augmented_assignment_refused')
          if not isinstance(raised, (TypeError, ValueError)):
            stats['skipped']['iadd_failed_oddly'] = 1
            break
          # refused: the in-place half may or may not have happened before the
          # refusal, so "current series" is what the object itself reports
          if cur is not None:
            if which == 'x':
              t.alias_x = True
            else:
              t.alias_y = True
        ev = [step, kind, op.get('o', 0), which, core.canon(raised)]
        absig.append((kind, op.get('o', 0), which))
      elif kind == 'clear_x':
        try:
          obj.x = None
        except Exception as e:  # pylint: disable=broad-except
          viol = core.violation(PROPERTY, 'D3', step, kind,
                                'clearing the control series raised %s' %
                                type(e).__name__)
          break
        if t.read_since_assign:
          t.stale_opportunity = True
        n_assign += 1
        t.x = None
        t.caller_x = None
        t.alias_x = False
        t.read_since_assign = set()
        ev = [step, kind, op.get('o', 0)]
        absig.append((kind, op.get('o', 0)))
      elif kind in ('reject_x', 'reject_y'):
        which = kind[-1]
        n = len(t.y)
        bad = _bad_value(np, op['how'], n)
        try:
          if which == 'x':
            obj.x = bad
          else:
            obj.y = bad
          raised = None
        except Exception as e:  # pylint: disable=broad-except
          raised = e
        f = fresh(t.y, t.x, t.pk)
        try:
          with as_reference():
            if which == 'x':
              f.x = _bad_value(np, op['how'], n)
            else:
              f.y = _bad_value(np, op['how'], n)
          f_raised = None
        except Exception as e:  # pylint: disable=broad-except
          f_raised = e
        if type(raised).__name__ != type(f_raised).__name__:   # by NAME: the two
        # objects live in different module sets, so their classes are never identical
          viol = core.violation(
              PROPERTY, 'D3', step, kind,
              'a refused assignment is refused differently from a fresh object',
              expected=core.canon(f_raised), got=core.canon(raised))
          break
        if not isinstance(raised, ValueError):
          # accepted (or failed otherwise) on both: input validation is not
          # C08's business and the series now held are not ours to model.
          stats['skipped']['rejection_not_a_valueerror'] = 1
          break
        fault('rejected_assignment_' + which)
        ev = [step, kind, op.get('o', 0), op['how'], core.canon(raised)]
        absig.append((kind, op.get('o', 0), op['how']))
        t.read_since_assign.add('__rejected__')
      elif kind == 'caller_mutates':
        arr = t.caller_x if op['which'] == 'x' else t.caller_y
        if arr is not None and len(arr):
          wrote = _scribble(arr, op['pos'], op['v'])
          if wrote:
            if op['which'] == 'x':
              t.alias_x = True
            else:
              t.alias_y = True
            fault('caller_mutates_passed_array')
        ev = [step, kind, op.get('o', 0), op['which']]
        absig.append((kind, op.get('o', 0), op['which'], arr is not None))
      elif kind == 'snapshot':
        new = None
        if op.get('how') == 'pickle':
          import pickle  # pylint: disable=g-import-not-at-top
          try:
            new = pickle.loads(pickle.dumps(obj))
            probe('snapshot_by_pickle')
          except Exception:  # pylint: disable=broad-except
            # C08 does not promise picklability: fall back to a deep copy
            stats['skipped']['pickle_unsupported'] = 1
        # (copy.copy is deliberately NOT a snapshot kind: shallow copies share
        # the series arrays, and on the unchanged class `a = copy.copy(d);
        # a.y += 1` already changes what d reports -- see DESIGN.md section 5.2,
        # C08-p.)
        if new is None:
          try:
            new = copy.deepcopy(obj)
          except Exception as e:  # pylint: disable=broad-except
            # C08 does not promise copyability either (an object holding a
            # lock, say): no snapshot, later ops on it find no such object
            stats['skipped']['snapshot_refused_' + type(e).__name__] = 1
            events.append([step, kind, op['id'], 'refused'])
            continue
        nt = _Tracked(new, None if t.y is None else t.y.copy(),
                      None if t.x is None else t.x.copy(), t.pk)
        nt.read_since_assign = set(t.read_since_assign)
        nt.stale_opportunity = t.stale_opportunity
        nt.cached_before_assign = t.cached_before_assign
        # the copy owns its arrays: the caller's arrays are not aliased by it
        objs[op['id']] = nt
        fault('deep_copy_snapshot')
        ev = [step, kind, op.get('o', 0), op['id']]
        absig.append((kind, op.get('o', 0)))
      elif kind == 'read':
        q = op['q']
        args = op.get('args') or []
        ok, val = _do_read(obj, q, args)
        got = core.canon(val)
        # current series: the tracked ones, unless the caller scribbled on the
        # array it passed in -- then whatever the object itself reports holds.
        cy, cx = t.y, t.x
        if t.alias_y or t.alias_x:
          try:
            ry, rx = obj.y, obj.x
          except Exception:  # pylint: disable=broad-except
            ry, rx = cy, cx    # a getter that raises reports nothing
          if t.alias_y and not same_series(ry, cy):
            probe('object_aliases_caller_array')
            cy = np.array(ry)
          if t.alias_x and rx is not None and cx is not None and (
              not same_series(rx, cx)):
            probe('object_aliases_caller_array')
            cx = np.array(rx)
        f = fresh(cy, cx, t.pk)
        with as_reference():
          f_ok, f_val = _do_read(f, q, args)
        exp = core.canon(f_val)
        stats['compared'] += 1
        if t.stale_opportunity:
          stale_read = True
        if '__rejected__' in t.read_since_assign:
          probe('read_after_rejected_assignment')
        if op.get('o', 0) != 0:
          probe('read_on_snapshot')
        if t.cached_before_assign:
          probe('read_after_assignment_over_filled_cache')
        if q == 'aatest' and ok and getattr(val, 'test_ok', 0) is None:
          probe('aa_test_unavailable')
        fit_a = getattr(val, 'a', None) if q == 'pretestfit' and ok else None
        if isinstance(fit_a, float) and math.isnan(fit_a):
          probe('nan_fit')
        if q == 'tests_ok' and ok and (val is None or np.ndim(val) == 0):
          probe('verdict_%s' % ('none' if val is None else bool(val)))
        if got != exp:
          inv = 'D2' if q in ('x', 'y') else 'D1'
          viol = core.violation(
              PROPERTY, inv, step, 'read:' + q,
              'object %d reports %s differently from a freshly built object '
              'holding the same series (%s)' % (
                  op.get('o', 0), q, core.first_difference(exp, got)),
              expected=exp, got=got)
          break
        t.read_since_assign.add(q)
        ev = [step, kind, op.get('o', 0), q, core.digest_of(got)]
        absig.append((kind, op.get('o', 0), q))
      else:
        raise RuntimeError('unknown op ' + kind)
      events.append(ev)
      st = abstract_state(t)
      stats['states'].add(core.digest_of(st))
      stats['transitions'].add(core.digest_of([prev_state, kind, op.get('q'),
                                               st]))
      prev_state = st
      absig.append(('state', st[1]))
  except _ReferenceRefused as e:
    # no freshly built object accepts the series (or parameters) the model
    # asked for: a constructor stricter than the setters, say.  What is
    # ACCEPTED is not C08's business; the rest of the run is not explored.
    stats['skipped']['reference_refused_' + type(e.args[0]).__name__] = 1

  nontrivial = n_assign >= 2 and stale_read
  stats['states'] = sorted(stats['states'])
  stats['transitions'] = sorted(stats['transitions'])
  return {'violation': viol, 'digest': core.digest_of(events),
          'signature': core.digest_of(absig), 'nontrivial': bool(nontrivial),
          'stats': stats}


# --------------------------------------------------------------------------
# shrinking support
# --------------------------------------------------------------------------
def normalize(desc):
  d = copy.deepcopy(desc)
  alive = {0}
  ops = []
  for op in d['ops']:
    if op['op'] not in ('new', 'churn') and op.get('o', 0) not in alive:
      continue
    if op['op'] in ('snapshot', 'new'):
      alive.add(op['id'])
    ops.append(op)
  d['ops'] = ops
  # drop unused series
  used = sorted({d['init_y']} | {op['s'] for op in ops if 's' in op} |
                {op['lazy_set_y'] for op in ops
                 if op.get('lazy_set_y') is not None})
  remap = {s: i for i, s in enumerate(used)}
  d['series'] = [d['series'][s] for s in used]
  if 'kinds' in d:
    d['kinds'] = [d['kinds'][s] for s in used]
  d['init_y'] = remap[d['init_y']]
  for op in ops:
    if 's' in op:
      op['s'] = remap[op['s']]
    if op.get('lazy_set_y') is not None:
      op['lazy_set_y'] = remap[op['lazy_set_y']]
  return d


def simplifications(desc):
  # parameters back to defaults, one at a time
  for k in sorted(desc['par']):
    if k not in ('n_test', 'iroas'):
      d = copy.deepcopy(desc)
      del d['par'][k]
      yield d
  if desc['par']['n_test'] > 1:
    d = copy.deepcopy(desc)
    d['par']['n_test'] = 1
    yield d
  if desc.get('par2') and desc['par2'] != desc['par']:
    d = copy.deepcopy(desc)
    d['par2'] = dict(d['par'])
    yield d
  # plain containers
  for i, op in enumerate(desc['ops']):
    if op.get('lazy_set_y') is not None:
      d = copy.deepcopy(desc)
      del d['ops'][i]['lazy_set_y']
      yield d
    if op.get('as') not in (None, 'list'):
      d = copy.deepcopy(desc)
      d['ops'][i]['as'] = 'list'
      yield d
  # ops on snapshots moved to the original
  for i, op in enumerate(desc['ops']):
    if op.get('o', 0) != 0 and op['op'] not in ('snapshot', 'new', 'churn'):
      d = copy.deepcopy(desc)
      d['ops'][i]['o'] = 0
      yield d
  # shorter series (all of one length cut to a common shorter prefix)
  lens = sorted({len(s) for s in desc['series']})
  for n in lens:
    for new in (max(3, n // 2), n - 1):
      if 3 <= new < n:
        d = copy.deepcopy(desc)
        d['series'] = [s[:new] if len(s) == n else s for s in d['series']]
        yield d
  # rounder values
  for i, s in enumerate(desc['series']):
    r = [v if isinstance(v, str) else float(round(v)) for v in s]
    if r != s:
      d = copy.deepcopy(desc)
      d['series'][i] = r
      yield d
