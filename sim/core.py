"""Shared plumbing of the deterministic simulator (see DESIGN.md section 3).

Nothing in this module draws from a PRNG except through the ``random.Random``
instances handed in, nothing reads a clock, and nothing depends on the
iteration order of a ``set`` or on ``hash()`` of a string.
"""
import dataclasses
import hashlib
import json
import math
import os
import sys

VERIF_DIR = os.path.dirname(os.path.dirname(os.path.abspath(__file__)))


# --------------------------------------------------------------------------
# One integer decides everything
# --------------------------------------------------------------------------
def derive(*parts) -> int:
  """A 63-bit integer derived from the parts, stable across processes."""
  h = hashlib.sha256('|'.join(str(p) for p in parts).encode()).digest()
  return int.from_bytes(h[:8], 'big') >> 1


def run_seed(verif_seed: int, machine: str, tier: str, index: int) -> int:
  return derive('run', verif_seed, machine, tier, index)


def hash_seed_for(verif_seed: int, machine: str, block: int) -> int:
  """PYTHONHASHSEED of the interpreter that executes a block of runs."""
  return derive('hashseed', verif_seed, machine, block) % 4294967295 + 1


# --------------------------------------------------------------------------
# Code under test
# --------------------------------------------------------------------------
def repo_root() -> str:
  return os.path.abspath(os.environ.get('VERIF_REPO') or '/repo')


_INSTALLED = []


# --- fast re-import of the methodology modules ------------------------------
# A simulated run re-executes the modules under test several times (one module
# set for the object under test, private ones for references).  The stock
# import machinery costs ~5 ms per module set in path lookups and bytecode
# reads; this finder serves `matched_markets.methodology.<name>` from code
# objects compiled once per (path, mtime, size) in the worker, ~1 ms per set.
_CODE_CACHE = {}


def _code_for(path):
  st = os.stat(path)
  key = (path, st.st_mtime_ns, st.st_size)
  code = _CODE_CACHE.get(key)
  if code is None:
    with open(path, 'rb') as f:
      code = compile(f.read(), path, 'exec', dont_inherit=True)
    _CODE_CACHE[key] = code
  return code


class _FastLoader:

  def __init__(self, path):
    self._path = path

  def create_module(self, spec):
    del spec
    return None

  def exec_module(self, module):
    exec(_code_for(self._path), module.__dict__)  # pylint: disable=exec-used


class _FastFinder:
  """Meta path finder for the methodology modules of the tree under test."""
  PREFIX = 'matched_markets.methodology.'

  def find_spec(self, fullname, path=None, target=None):
    del path, target
    if not fullname.startswith(self.PREFIX):
      return None
    name = fullname[len(self.PREFIX):]
    if '.' in name:
      return None
    filename = os.path.join(methodology_dir(), name + '.py')
    if not os.path.isfile(filename):
      return None
    import importlib.util  # pylint: disable=g-import-not-at-top
    spec = importlib.util.spec_from_loader(fullname, _FastLoader(filename),
                                           origin=filename)
    spec.has_location = True
    return spec


def _install_fast_finder():
  if not any(isinstance(f, _FastFinder) for f in sys.meta_path):
    sys.meta_path.insert(0, _FastFinder())


_PREFIX = 'matched_markets.methodology.'


_KNOWN_NAMES = {}


def _methodology_names():
  """Every importable name under matched_markets.methodology of the tree
  under test (from the directory, once per process): scanning all of
  sys.modules for the prefix at every swap was a third of a diag run."""
  root = methodology_dir()
  names = _KNOWN_NAMES.get(root)
  if names is None:
    names = []
    for d, dirs, files in os.walk(root):
      dirs[:] = [x for x in dirs if x != '__pycache__']
      rel = os.path.relpath(d, root)
      parts = [] if rel == '.' else rel.split(os.sep)
      for x in dirs:
        names.append(_PREFIX + '.'.join(parts + [x]))
      for f in files:
        if f.endswith('.py') and f != '__init__.py':
          names.append(_PREFIX + '.'.join(parts + [f[:-3]]))
    _KNOWN_NAMES[root] = names
  return names


def _purge_methodology(pkg):
  """Detach the current module set; returns (sys.modules entries, attrs)."""
  mods = {}
  for n in _methodology_names():
    m = sys.modules.pop(n, None)
    if m is not None:
      mods[n] = m
  attrs = {a: v for a, v in vars(pkg).items() if not a.startswith('__')}
  for a in attrs:
    delattr(pkg, a)
  return mods, attrs


def _attach_methodology(pkg, mods, attrs):
  sys.modules.update(mods)
  for a, v in attrs.items():
    setattr(pkg, a, v)


class ModuleSet(list):
  """The requested modules of one set (a list), plus the whole set.

  `active()` makes the set the one that by-name lookups see
  (sys.modules['matched_markets.methodology.*'] and the package attributes)
  for the duration of a block: code that resolves its own classes by name at
  call time -- pickle of its own instances, function-level imports -- must
  find the classes of the set it belongs to, not those of the other party.
  """

  def __init__(self, modules, pkg, installed):
    super().__init__(modules)
    self._pkg = pkg
    self._installed = installed
    self._mods = {}
    self._attrs = {}

  def active(self):
    return _Active(self)


class _Active:

  def __init__(self, mset):
    self.mset = mset
    self.prev = None

  def __enter__(self):
    m = self.mset
    if m._installed:          # pylint: disable=protected-access
      return m
    self.prev = _purge_methodology(m._pkg)   # pylint: disable=protected-access
    _attach_methodology(m._pkg, m._mods, m._attrs)  # pylint: disable=protected-access
    return m

  def __exit__(self, *exc):
    m = self.mset
    if m._installed:          # pylint: disable=protected-access
      return False
    # whatever the block imported lazily stays with the set it belongs to
    m._mods, m._attrs = _purge_methodology(m._pkg)  # pylint: disable=protected-access
    _attach_methodology(m._pkg, *self.prev)  # pylint: disable=protected-access
    self.prev = None
    return False


def load_module_set(names, install):
  """The named methodology modules, re-executed from source.

  Process-global state of the code under test (class attributes, module
  globals, functools caches) must not survive from one simulated run to the
  next inside a worker interpreter, nor leak between the object under test and
  the reference: one module set is one simulated process.  All
  matched_markets.methodology modules are dropped from sys.modules and the
  named ones imported afresh (which re-imports what they depend on).  With
  install=False the previous sys.modules entries are put back afterwards; the
  new set lives on through the returned ModuleSet, whose `active()` swaps it
  in for the duration of a reference evaluation.
  """
  install_repo_path()
  _install_fast_finder()
  import importlib  # pylint: disable=g-import-not-at-top
  pkg = importlib.import_module('matched_markets.methodology')
  prev = _purge_methodology(pkg)
  out = None
  try:
    out = ModuleSet([importlib.import_module(_PREFIX + n) for n in names],
                    pkg, install)
  finally:
    if not install:
      mine = _purge_methodology(pkg)
      if out is not None:
        out._mods, out._attrs = mine   # pylint: disable=protected-access
      _attach_methodology(pkg, *prev)
  return out


def fresh_modules(*names):
  """A new module set for the object under test of this run (installed)."""
  return load_module_set(names, install=True)


def reference_modules(*names):
  """A new, private module set for a reference evaluation (not installed)."""
  return load_module_set(names, install=False)


def install_repo_path():
  """Make `import matched_markets` resolve to the working tree under test."""
  root = repo_root()
  if _INSTALLED == [root]:
    return root
  if sys.path[0] != root:
    sys.path.insert(0, root)
  for name in list(sys.modules):
    if name == 'matched_markets' or name.startswith('matched_markets.'):
      mod = sys.modules[name]
      f = getattr(mod, '__file__', None) or ''
      if f and not os.path.abspath(f).startswith(root + os.sep):
        raise RuntimeError('matched_markets already imported from ' + f)
  import matched_markets  # pylint: disable=g-import-not-at-top
  f = os.path.abspath(matched_markets.__file__)
  if not f.startswith(root + os.sep):
    raise RuntimeError('matched_markets resolved to %s, not under %s' %
                       (f, root))
  _INSTALLED[:] = [root]
  return root


def methodology_dir() -> str:
  return os.path.join(repo_root(), 'matched_markets', 'methodology')


def tree_hash() -> str:
  """sha256 over the working-tree methodology sources (what the run tested)."""
  d = methodology_dir()
  h = hashlib.sha256()
  for name in sorted(os.listdir(d)):
    if name.endswith('.py'):
      h.update(name.encode())
      with open(os.path.join(d, name), 'rb') as f:
        h.update(f.read())
  return h.hexdigest()[:16]


# --------------------------------------------------------------------------
# JSON-able encoding of floats (NaN / inf are not JSON)
# --------------------------------------------------------------------------
def enc_float(v):
  v = float(v)
  if math.isnan(v):
    return 'nan'
  if math.isinf(v):
    return 'inf' if v > 0 else '-inf'
  return v


def dec_float(v):
  if isinstance(v, str):
    return float(v)
  return v


# --------------------------------------------------------------------------
# Digest twins: different inputs with the same cheap digest
# --------------------------------------------------------------------------
HASH_TWINS = ((0.5009765625, 0.0009765625000000002),
              (0.50146484375, 0.0014648437500000002))
# hash(a) == hash(b) for each pair (CPython's numeric hash is the value modulo
# 2**61 - 1), both inside (0, 1): what `hash(args)` used as a cache key confuses


def crc32_twin(values, i, j):
  """A float64 series != values with the same zlib.crc32 of its bytes.

  Element i gets one mantissa bit flipped, the low four bytes of element j (a
  relative change below 1e-6) are then chosen so that the CRC-32 of the whole
  little-endian buffer is what it was: what a checksum used as identity
  confuses.  Pure function of its arguments.
  """
  import struct  # pylint: disable=g-import-not-at-top
  import zlib  # pylint: disable=g-import-not-at-top
  buf = bytearray(struct.pack('<%dd' % len(values), *values))
  target = zlib.crc32(bytes(buf))
  buf[8 * i + 2] ^= 0x10
  pos = 8 * j
  # CRC register needed after the four patch bytes so that the suffix leads to
  # `target`: run the CRC backwards over the suffix
  poly = 0xEDB88320
  table = []
  for n in range(256):
    c = n
    for _ in range(8):
      c = (c >> 1) ^ poly if c & 1 else c >> 1
    table.append(c)
  rev = {table[n] >> 24: n for n in range(256)}
  def backward(reg, data):
    for byte in reversed(data):
      idx = rev[reg >> 24]
      reg = ((reg ^ table[idx]) << 8) & 0xFFFFFFFF | (idx ^ byte)
    return reg
  want = backward(target ^ 0xFFFFFFFF, bytes(buf[pos + 4:]))
  have = zlib.crc32(bytes(buf[:pos])) ^ 0xFFFFFFFF
  # four bytes taking register `have` to register `want`
  patch = backward(want, b'\0\0\0\0') ^ have
  buf[pos:pos + 4] = struct.pack('<I', patch & 0xFFFFFFFF)
  out = list(struct.unpack('<%dd' % len(values), bytes(buf)))
  if zlib.crc32(bytes(buf)) != target or out == list(values):
    return None
  return out


# --------------------------------------------------------------------------
# Canonical form of answers: bit-exact, order-free, type-tolerant
# --------------------------------------------------------------------------
def _sort_key(c):
  return json.dumps(c, sort_keys=True)


def canon(x, _depth=0):
  """Canonical JSON-able form of an answer of the code under test.

  floats -> hex (bit exact, NaN == NaN); sets -> sorted; numpy scalars ->
  python scalars; arrays -> dtype kind, shape, elements; namedtuples and
  dataclasses field-wise; library objects through their public attributes.
  """
  if _depth > 12:
    return ['deep']
  d = _depth + 1
  if x is None:
    return None
  # bool before int (bool is an int).
  tname = type(x).__name__
  mod = type(x).__module__ or ''
  if isinstance(x, bool) or (mod == 'numpy' and tname in ('bool', 'bool_')):
    return bool(x)
  if isinstance(x, int):
    return int(x)
  if isinstance(x, float):
    return ['f', float(x).hex()]
  if isinstance(x, str):
    return x
  if mod == 'numpy':
    import numpy as np  # pylint: disable=g-import-not-at-top
    if isinstance(x, np.integer):
      return int(x)
    if isinstance(x, np.floating):
      return ['f', float(x).hex()]
    if isinstance(x, np.ndarray):
      return ['nd', x.dtype.kind, list(x.shape),
              [canon(v, d) for v in x.ravel().tolist()]]
  if isinstance(x, BaseException):
    return ['exc', type(x).__name__]
  if mod == 'fractions' or tname == 'ProbeFraction':
    return ['frac', str(x.numerator), str(x.denominator)]
  if isinstance(x, range):
    return ['range', x.start, x.stop, x.step]
  if isinstance(x, tuple) and hasattr(x, '_fields'):
    return ['nt', type(x).__name__,
            [[f, canon(getattr(x, f), d)] for f in x._fields]]
  if isinstance(x, (list, tuple)):
    return [canon(v, d) for v in x]
  if isinstance(x, (set, frozenset)):
    return ['set', sorted((canon(v, d) for v in x), key=_sort_key)]
  if isinstance(x, dict):
    return ['dict', sorted(([canon(k, d), canon(v, d)] for k, v in x.items()),
                           key=_sort_key)]
  if tname == 'TBRMMDiagnostics':
    return ['diag', canon_diag(x, d)]
  if tname == 'TBRMMScore':
    return ['score', canon(x.score, d)]
  if tname == 'TBRMMDesign':
    return ['design', {
        'treatment': canon(set(x.treatment_geos), d),
        'control': canon(set(x.control_geos), d),
        'score': canon(x.score, d),
        'diag': canon(x.diag, d)}]
  if tname == 'Series' and mod.startswith('pandas'):
    return ['series', [canon(v, d) for v in x.index.tolist()],
            [canon(v, d) for v in x.tolist()]]
  if dataclasses.is_dataclass(x) and not isinstance(x, type):
    # GeoAssignments defines its own __init__; read the annotated fields.
    names = [f.name for f in dataclasses.fields(x)]
    return ['dc', tname, [[n, canon(getattr(x, n, None), d)] for n in names]]
  # Library objects under another class name (a subclass, a frozen record
  # handed out instead of the live object) are recognised by what they offer.
  if all(hasattr(type(x), q) or hasattr(x, q)
         for q in ('treatment_geos', 'control_geos', 'score', 'diag')):
    return ['design', {
        'treatment': canon(set(x.treatment_geos), d),
        'control': canon(set(x.control_geos), d),
        'score': canon(x.score, d),
        'diag': canon(x.diag, d)}]
  if all(hasattr(type(x), q) for q in ('corr', 'required_impact', 'bbtest',
                                       'aatest', 'dwtest', 'tests_ok')):
    return ['diag', canon_diag(x, d)]
  r = repr(x)
  if ' at 0x' in r:
    # the default repr embeds the address: never an answer.  Public state.
    names = sorted(set(getattr(x, '__dict__', {})) |
                   {n for c in type(x).__mro__
                    for n in ((getattr(c, '__slots__', ()),) if isinstance(
                        getattr(c, '__slots__', ()), str) else getattr(
                            c, '__slots__', ()))})
    return ['obj', tname, [[n, canon(getattr(x, n, None), d)]
                           for n in names if not n.startswith('_')]]
  return ['obj', tname, r]


DIAG_QUANTITIES = ('x', 'y', 'corr', 'required_impact', 'pretestfit', 'bbtest',
                   'dwtest', 'aatest', 'corr_test', 'tests_ok')


def canon_diag(diag, depth=0):
  """Everything a diagnostics object reports through public properties."""
  out = []
  for q in DIAG_QUANTITIES:
    try:
      v = getattr(diag, q)
    except Exception as e:  # pylint: disable=broad-except
      v = e
    out.append([q, canon(v, depth + 1)])
  return out


def digest_of(obj) -> str:
  return hashlib.sha256(
      json.dumps(obj, sort_keys=True, separators=(',', ':')).encode()
  ).hexdigest()[:20]


# --------------------------------------------------------------------------
# Violations
# --------------------------------------------------------------------------
_MISSING = object()


def violation(prop, invariant, step, op_kind, detail, expected=_MISSING,
              got=_MISSING):
  """A violation record. `cls` is the class shrinking must preserve."""
  v = {'property': prop, 'invariant': invariant, 'step': step,
       'op_kind': op_kind, 'detail': detail,
       'cls': '%s/%s/%s' % (prop, invariant, op_kind)}
  if expected is not _MISSING:
    v['expected'] = _clip(expected)
  if got is not _MISSING:
    v['got'] = _clip(got)
  return v


def _clip(c, limit=600):
  s = json.dumps(c, sort_keys=True)
  return s if len(s) <= limit else s[:limit] + '...(%d chars)' % len(s)


def first_difference(a, b, path='$'):
  """Human-readable path of the first difference between two canon forms."""
  def is_exc(c):
    return isinstance(c, list) and len(c) == 2 and c[0] == 'exc'
  if is_exc(a) or is_exc(b):
    return '%s: %s vs %s' % (path, _clip(a, 120), _clip(b, 120))
  if type(a) != type(b):  # pylint: disable=unidiomatic-typecheck
    return '%s: %s vs %s' % (path, _clip(a, 120), _clip(b, 120))
  if isinstance(a, list):
    if len(a) != len(b):
      return '%s: length %d vs %d' % (path, len(a), len(b))
    for i, (u, v) in enumerate(zip(a, b)):
      if u != v:
        return first_difference(u, v, '%s[%d]' % (path, i))
    return None
  if isinstance(a, dict):
    for k in sorted(set(a) | set(b)):
      if a.get(k) != b.get(k):
        return first_difference(a.get(k), b.get(k), '%s.%s' % (path, k))
    return None
  if a != b:
    return '%s: %s vs %s' % (path, _clip(a, 120), _clip(b, 120))
  return None


# --------------------------------------------------------------------------
# Replay files and known findings
# --------------------------------------------------------------------------
def write_json(path, obj):
  os.makedirs(os.path.dirname(path), exist_ok=True)
  tmp = path + '.tmp%d' % os.getpid()
  with open(tmp, 'w') as f:
    json.dump(obj, f, indent=1, sort_keys=True)
    f.write('\n')
  os.replace(tmp, path)


def read_json(path):
  with open(path) as f:
    return json.load(f)


def load_known_findings():
  path = os.path.join(VERIF_DIR, 'known_findings.json')
  if not os.path.exists(path):
    return []
  return read_json(path).get('findings', [])


def match_known(viol, findings):
  """The `known` entry (never a `fixed` one) that lists this violation."""
  for f in findings:
    if f.get('status') != 'known' or f.get('property') != viol['property']:
      continue
    sig = f.get('signature', {})
    if sig.get('cls') != viol['cls']:
      continue
    shape = sig.get('history_shape')
    if shape is not None and shape != viol.get('history_shape'):
      continue
    return f
  return None
