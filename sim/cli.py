"""Check driver: `/venv/bin/python sim/cli.py <C08|C10|C14> --tier quick|thorough`.

Spawns fresh worker interpreters over blocks of run indices, collects their
summaries, shrinks and replays violations, writes evidence/<id>.json.

Exit status: 0 = held on everything explored (possibly KNOWN-FINDING lines),
1 = `VIOLATION property=<id> replay=<path>` printed, 2 = HARNESS-ERROR
(timeout, crash, nondeterminism, replay mismatch) -- never 0 and never a
VIOLATION line in that case.
"""
import argparse
import atexit
import json
import os
import shutil
import subprocess
import sys
import tempfile
import time

sys.path.insert(0, os.path.dirname(os.path.dirname(os.path.abspath(__file__))))

from sim import core  # pylint: disable=g-import-not-at-top

PY = sys.executable
# Where evidence/ and replays/ are written (self-tests on mutants redirect it).
OUT_DIR = os.path.abspath(os.environ.get('VERIF_OUT') or core.VERIF_DIR)
WORKER = os.path.join(core.VERIF_DIR, 'sim', 'worker.py')
NPROC = int(os.environ.get('VERIF_WORKERS', '0')) or min(16, os.cpu_count() or 4)

# runs = planned run indices [0, runs); block = indices per fresh interpreter;
# wall = seconds after which no further block of the batch is started.
CHECKS = {
    'C14': {
        'title': 'bounded queue keeps the top k; results best-first, capped',
        'batches': [
            {'machine': 'heap', 'profile': 'default',
             'runs': {'quick': 400000, 'thorough': 12000000},
             'block': {'quick': 12500, 'thorough': 25000},
             'wall': {'quick': 60, 'thorough': 1500}},
            {'machine': 'mm', 'profile': 'c14',
             'runs': {'quick': 320, 'thorough': 12000},
             'block': {'quick': 5, 'thorough': 25},
             'wall': {'quick': 80, 'thorough': 1700}},
        ]},
    'C08': {
        'title': 'diagnostics never serve stale values',
        'batches': [
            {'machine': 'diag', 'profile': 'default',
             'runs': {'quick': 24000, 'thorough': 1200000},
             'block': {'quick': 500, 'thorough': 1500},
             'wall': {'quick': 95, 'thorough': 1700}},
        ]},
    'C10': {
        'title': 'search API has no hidden state',
        'batches': [
            {'machine': 'mm', 'profile': 'faultfree',
             'runs': {'quick': 480, 'thorough': 14000},
             'block': {'quick': 4, 'thorough': 20},
             'wall': {'quick': 95, 'thorough': 1700}},
            {'machine': 'mm', 'profile': 'faults',
             'runs': {'quick': 544, 'thorough': 14000},
             'block': {'quick': 4, 'thorough': 20},
             'wall': {'quick': 95, 'thorough': 1700}},
        ]},
}
DETERMINISM_SAMPLE = {'heap': 64, 'diag': 24, 'mm': 4}


_PYC_DIR = []
_LIVE = set()      # worker processes started and not yet reaped


def _die_with_parent():
  """In the child: be killed when the driver dies (no orphaned workers)."""
  try:
    import ctypes  # pylint: disable=g-import-not-at-top
    ctypes.CDLL('libc.so.6', use_errno=True).prctl(1, 9)   # PDEATHSIG=KILL
  except Exception:  # pylint: disable=broad-except
    pass


def _kill_children(*unused):
  for p in list(_LIVE):
    try:
      if p.poll() is None:
        p.kill()
    except Exception:  # pylint: disable=broad-except
      pass
  if unused:            # called as a signal handler
    sys.exit(2)


atexit.register(_kill_children)


def pyc_dir():
  """Per-invocation bytecode cache outside /repo and /verif (removed at exit).

  Every simulated run re-imports the modules under test; without a bytecode
  cache each import recompiles the sources.  A fresh directory per invocation
  means a stale entry can never be picked up across edits of the tree.
  """
  if not _PYC_DIR:
    # leftovers of drivers that were killed outright (SIGKILL): ours by name,
    # safe to drop once they are hours old
    try:
      root = tempfile.gettempdir()
      for name in os.listdir(root):
        path = os.path.join(root, name)
        if (name.startswith('verif_pyc.') and os.path.isdir(path) and
            time.time() - os.path.getmtime(path) > 6 * 3600):
          shutil.rmtree(path, ignore_errors=True)
    except OSError:
      pass
    d = tempfile.mkdtemp(prefix='verif_pyc.')
    _PYC_DIR.append(d)
    atexit.register(shutil.rmtree, d, ignore_errors=True)
  return _PYC_DIR[0]


def optimize_for(hashseed):
  """Interpreter optimisation level of a worker: a build knob.

  One worker interpreter in five runs under PYTHONOPTIMIZE=1 (`python -O`:
  assert statements compiled out), derived from its hash seed so that it is
  recorded with it and replay re-creates it.  Correct code answers the same
  either way; code whose behaviour hides in an `assert` does not.
  """
  return 1 if int(hashseed) % 5 == 0 else 0


def worker_env(hashseed, optimize=None):
  env = dict(os.environ)
  env.update({'PYTHONHASHSEED': str(hashseed), 'OPENBLAS_NUM_THREADS': '1',
              'OMP_NUM_THREADS': '1', 'MKL_NUM_THREADS': '1',
              'PYTHONPYCACHEPREFIX': pyc_dir()})
  env.pop('PYTHONDONTWRITEBYTECODE', None)
  env.pop('PYTHONOPTIMIZE', None)
  if optimize is None:
    optimize = optimize_for(hashseed)
  if optimize:
    env['PYTHONOPTIMIZE'] = '1'
  env.setdefault('VERIF_WORKER_TIMEOUT', '1800')
  return env


class Job:
  """One worker interpreter executing one block."""

  def __init__(self, batch_id, machine, profile, seed, tier, start, count,
               hashseed, digests=False, tag='main'):
    self.batch_id = batch_id
    self.tag = tag
    self.hashseed = hashseed
    self.start = start
    self.count = count
    args = [PY, WORKER, 'run', machine, str(seed), tier, profile, str(start),
            str(count)]
    if digests:
      args.append('--digests')
    self.args = args
    self.t0 = time.time()
    # Files, not pipes: nobody drains a pipe while the parent polls.
    self._out = tempfile.TemporaryFile()
    self._err = tempfile.TemporaryFile()
    self.proc = subprocess.Popen(args, stdout=self._out, stderr=self._err,
                                 cwd=core.VERIF_DIR, env=worker_env(hashseed),
                                 preexec_fn=_die_with_parent)
    _LIVE.add(self.proc)

  def kill(self):
    self.proc.kill()
    self.proc.wait()
    _LIVE.discard(self.proc)
    self._out.close()
    self._err.close()

  def finish(self):
    self.proc.wait()
    _LIVE.discard(self.proc)
    self._out.seek(0)
    self._err.seek(0)
    out, err = self._out.read(), self._err.read()
    self._out.close()
    self._err.close()
    if self.proc.returncode != 0:
      return None, 'worker exit %s: %s' % (self.proc.returncode,
                                           err.decode(errors='replace')[-1500:])
    try:
      return json.loads(out.decode().strip().splitlines()[-1]), None
    except Exception as e:  # pylint: disable=broad-except
      return None, 'unparsable worker output (%s): %s' % (
          e, err.decode(errors='replace')[-800:])


def run_jobs(specs, block_timeout, log):
  """Runs job specs (callables creating Jobs) NPROC at a time.

  specs: list of (deadline or None, factory). A spec whose deadline has passed
  before it is started is skipped (counted).  Returns (results, errors, skipped)
  """
  pending = list(specs)
  running = []
  results, errors = [], []
  skipped = 0
  while pending or running:
    while pending and len(running) < NPROC:
      deadline, factory = pending.pop(0)
      if deadline is not None and time.time() > deadline:
        skipped += 1
        continue
      running.append(factory())
    still = []
    for job in running:
      if job.proc.poll() is None:
        if time.time() - job.t0 > block_timeout:
          job.kill()
          errors.append('block %s[%d:+%d] exceeded %ds and was killed' % (
              job.batch_id, job.start, job.count, block_timeout))
        else:
          still.append(job)
        continue
      res, err = job.finish()
      if err:
        errors.append('block %s[%d:+%d]: %s' % (job.batch_id, job.start,
                                                 job.count, err))
      else:
        results.append((job, res))
    running = still
    if running:
      time.sleep(0.05)
  return results, errors, skipped


def shrink_and_confirm(prop, viol_rec, hashseed, tier, seed, log):
  """Shrinks one violation, writes the replay file, replays it fresh."""
  os.makedirs(os.path.join(OUT_DIR, 'replays'), exist_ok=True)
  desc = viol_rec['desc']
  rep = {'property': prop, 'verif_seed': seed, 'tier': tier,
         'run_index': viol_rec['index'], 'hashseed': hashseed,
         'desc': desc, 'violation': viol_rec['violation'],
         'tree': core.tree_hash()}
  base = '%s-%d-%s' % (prop, seed, core.digest_of(
      [viol_rec['violation']['cls'], desc])[:10])
  raw = os.path.join(OUT_DIR, 'replays', base + '.raw.json')
  final = os.path.join(OUT_DIR, 'replays', base + '.json')
  core.write_json(raw, rep)
  shrunk = False
  try:
    p = subprocess.run([PY, WORKER, 'shrink', raw, final],
                       cwd=core.VERIF_DIR, env=worker_env(hashseed),
                       capture_output=True,
                       timeout=int(os.environ.get('VERIF_SHRINK_TIMEOUT',
                                                  '300')))
    shrunk = p.returncode == 0 and os.path.exists(final)
    if not shrunk:
      log('shrink failed: ' + p.stderr.decode(errors='replace')[-600:])
  except subprocess.TimeoutExpired:
    log('shrink timed out; reporting the unshrunk history')
  if shrunk:
    rep = core.read_json(final)
    if not rep.get('violation'):
      shrunk = False
  if not shrunk:
    rep = core.read_json(raw)
    core.write_json(final, rep)
  os.remove(raw)
  # Confirm in a fresh interpreter: same class must come back.
  try:
    p = subprocess.run([PY, WORKER, 'replay', final], cwd=core.VERIF_DIR,
                       env=worker_env(hashseed), capture_output=True,
                       timeout=900)
    text = p.stdout.decode(errors='replace')
  except subprocess.TimeoutExpired:
    text = 'REPLAY-MISMATCH replay timed out'
  confirmed = (('violation class: ' + rep['violation']['cls']) in text and
               'REPLAY-MISMATCH' not in text and 'DIFFERENT' not in text)
  return final, rep, confirmed, text


def history_shape(desc):
  return ' '.join(op['op'] for op in desc.get('ops', []))


def run_check(prop, tier, seed):
  spec = CHECKS[prop]
  t0 = time.time()
  messages = []

  def log(msg):
    messages.append(msg)
    print(msg, flush=True)

  log('check %s (%s) tier=%s VERIF_SEED=%d workers=%d repo=%s tree=%s' % (
      prop, spec['title'], tier, seed, NPROC, core.repo_root(),
      core.tree_hash()))
  queues = []
  block_no = 0
  # generous: an idle-machine block takes 20-90 s; a block is only killed when
  # something hangs, not because the machine is busy
  block_timeout = int(os.environ.get('VERIF_BLOCK_TIMEOUT', '1500'))
  scale = float(os.environ.get('VERIF_SCALE', '1'))
  # Determinism re-check: the first few runs of every machine in two fresh
  # interpreters under two different hash seeds.
  det_queue = []
  machines_seen = []
  for b in spec['batches']:
    key = (b['machine'], b['profile'])
    if key in machines_seen:
      continue
    machines_seen.append(key)
    n = DETERMINISM_SAMPLE[b['machine']]
    for rep_no in (0, 1):
      hs = core.hash_seed_for(seed, 'det-%s-%d' % (b['machine'], rep_no), 0)
      if hs % 5 == 0:
        hs -= 1      # both under the default optimisation level: this sample
                     # checks the harness, not the build knob of optimize_for()
      det_queue.append((None, (lambda b=b, n=n, hs=hs, rep_no=rep_no: Job(
          'det:%s:%s' % (b['machine'], b['profile']), b['machine'],
          b['profile'], seed, tier, 0, n, hs, digests=True,
          tag='det%d' % rep_no))))
  queues.append(det_queue)
  for b in spec['batches']:
    total = max(1, int(b['runs'][tier] * scale))
    block = b['block'][tier]
    deadline = t0 + b['wall'][tier] * max(scale, 1.0)
    bid = '%s:%s' % (b['machine'], b['profile'])
    q = []
    for bi, start in enumerate(range(0, total, block)):
      count = min(block, total - start)
      hs = core.hash_seed_for(seed, bid, block_no)
      # the build knob of optimize_for() (python -O when hs % 5 == 0) is
      # spread evenly, starting with the second block of every batch, so that
      # a run cut short by the wall cap has still seen both builds
      if bi % 5 == 1:
        hs -= hs % 5
      elif hs % 5 == 0:
        hs -= 1
      block_no += 1
      q.append((deadline, (lambda b=b, bid=bid, start=start, count=count,
                           hs=hs: Job(bid, b['machine'], b['profile'],
                                      seed, tier, start, count, hs))))
    queues.append(q)
  # Interleave the batches so that every batch gets workers from the start.
  ordered = []
  while any(queues):
    for q in queues:
      if q:
        ordered.append(q.pop(0))
  results, errors, skipped_blocks = run_jobs(ordered, block_timeout, log)

  # ---- aggregate --------------------------------------------------------
  agg = {}
  violations = []
  harness_errors = list(errors)
  run_errors = []      # exceptions of the harness inside single runs
  det = {}
  trees = set()
  for job, res in results:
    trees.add(res['tree'])
    if job.tag.startswith('det'):
      det.setdefault(job.batch_id, {})[job.tag] = res['digests']
      if job.tag == 'det0':
        for he in res['harness_errors']:
          run_errors.append('run %s#%d: %s' % (job.batch_id, he['index'],
                                               he['trace'][-700:]))
      continue
    a = agg.setdefault(job.batch_id, {
        'runs': 0, 'nontrivial': 0, 'ops': 0, 'compared': 0, 'faults': {},
        'probes': {}, 'skipped': {}, 'states': set(), 'transitions': set(),
        'signatures': set(), 'samples': [], 'blocks': 0, 'blocks_O': 0})
    a['blocks'] += 1
    a['blocks_O'] += 1 if res.get('optimize') else 0
    for f in ('runs', 'nontrivial', 'ops', 'compared'):
      a[f] += res[f]
    for f in ('faults', 'probes', 'skipped'):
      for k, v in res[f].items():
        a[f][k] = a[f].get(k, 0) + v
    for f in ('states', 'transitions', 'signatures'):
      a[f].update(res[f])
    if len(a['samples']) < 2:
      a['samples'].extend(res['samples'][:1])
    for v in res['violations']:
      v['hashseed'] = job.hashseed
      v['batch'] = job.batch_id
      violations.append(v)
    for he in res['harness_errors']:
      run_errors.append('run %s#%d: %s' % (job.batch_id, he['index'],
                                           he['trace'][-700:]))
  det_checked = 0
  for bid, tags in det.items():
    if len(tags) != 2:
      harness_errors.append('determinism sample of %s did not complete' % bid)
      continue
    d0, d1 = tags['det0'], tags['det1']
    det_checked += len(d0)
    if d0 != d1:
      bad = sorted(k for k in d0 if d0.get(k) != d1.get(k))
      harness_errors.append(
          'NONDETERMINISM in %s: runs %s differ between two interpreters '
          'with different PYTHONHASHSEED' % (bid, bad[:10]))
  if len(trees) > 1:
    harness_errors.append('the working tree changed while the check ran')
  # A run in which the harness itself raised was not explored: it is reported
  # (stdout, evidence) and tolerated while rare; more than a handful means the
  # harness does not fit the tree under test and nothing is claimed.
  run_errors = sorted(set(e.replace('run det:', 'run ') for e in run_errors))
  total_runs = sum(a['runs'] for a in agg.values()) + len(run_errors)
  too_many_run_errors = len(run_errors) > max(2, total_runs // 500)

  # ---- violations: shrink, replay, classify ------------------------------
  findings = core.load_known_findings()
  by_cls = {}
  for v in sorted(violations, key=lambda v: (v['batch'], v['index'])):
    by_cls.setdefault(v['violation']['cls'], []).append(v)
  reported = []
  known_lines = []
  shrink_t0 = time.time()
  for cls, vs in sorted(by_cls.items())[:6]:
    if reported and time.time() - shrink_t0 > (150 if tier == 'quick'
                                               else 900):
      # enough wall time spent minimising: one confirmed report suffices
      log('violation class %s in %d run(s): not minimised (time)' % (
          cls, len(vs)))
      continue
    v = min(vs, key=lambda v: len(v['desc'].get('ops', [])))
    path, rep, confirmed, text = shrink_and_confirm(
        prop, v, v['hashseed'], tier, seed, log)
    viol = rep['violation']
    viol['history_shape'] = history_shape(rep['desc'])
    if not confirmed:
      harness_errors.append(
          'violation %s (run %s#%d) did not replay identically in a fresh '
          'interpreter:\n%s' % (cls, v['batch'], v['index'],
                                text[-800:].replace('VIOLATION property=',
                                                    'violation-line property=')))
      continue
    known = core.match_known(viol, findings)
    if known:
      known_lines.append('KNOWN-FINDING: property=%s %s' % (prop,
                                                             known['what']))
    else:
      reported.append((cls, path, rep, len(vs)))

  # Too many runs in which the harness raised: nothing can be said about the
  # runs that were not explored -- unless a violation was minimised and
  # CONFIRMED by replay in a fresh interpreter: that is a fact about the tree
  # whatever happened in other runs (a library that hands out a stale series
  # may well trip the model elsewhere too), and it is reported.
  if too_many_run_errors and not reported:
    harness_errors.extend(run_errors)
  # A check that compared (almost) nothing must not say "held": runs are
  # skipped, by design, when the tree under test refuses what the harness
  # needs (constructions, references, snapshots) -- if that is most of them,
  # the harness does not fit this tree.
  if not reported and not known_lines:
    for bid, a in sorted(agg.items()):
      if a['runs'] >= 20 and a['compared'] * 2 < a['runs']:
        harness_errors.append(
            'VACUOUS: batch %s compared %d answers in %d runs (skipped: %s)' %
            (bid, a['compared'], a['runs'],
             json.dumps(a['skipped'], sort_keys=True)[:300]))
  # ---- evidence -----------------------------------------------------------
  wall = time.time() - t0
  evidence = build_evidence(prop, tier, seed, spec, agg, wall, len(violations),
                            det_checked, skipped_blocks,
                            harness_errors + ['(tolerated) ' + e
                                              for e in run_errors
                                              if e not in harness_errors],
                            known_lines, reported)
  for e in run_errors:
    if e not in harness_errors:
      print('WARNING: run not explored, the harness raised: ' +
            e.replace('\n', '\n    ')[:900])
  core.write_json(os.path.join(OUT_DIR, 'evidence', prop + '.json'),
                  evidence)
  cov = evidence['coverage']
  log('explored %d runs (%d distinct non-trivial histories), %d ops, %d '
      'compared answers, %.0f runs/hour, wall %.1fs' % (
          cov['evaluations'], cov['distinct_nontrivial'], cov['ops_executed'],
          cov['answers_compared'], cov['runs_per_hour'], wall))
  log('faults fired: %s' % json.dumps(cov['faults_fired'], sort_keys=True))
  for line in known_lines:
    print(line)
  if harness_errors:
    for e in harness_errors[:8]:
      print('HARNESS-ERROR: ' + e.replace('\n', '\n    '))
    print('HARNESS-ERROR: %d problem(s); nothing is claimed by this run' %
          len(harness_errors))
    return 2
  if reported:
    for cls, path, rep, n in reported:
      v = rep['violation']
      print('violation class %s in %d run(s); minimised to %d ops '
            '(from %s): step %s %s: %s' % (
                cls, n, len(rep['desc'].get('ops', [])),
                rep.get('original_ops', '?'), v.get('step'), v.get('op_kind'),
                v['detail']))
      print('VIOLATION property=%s replay=%s' % (prop, path))
    return 1
  print('OK property=%s held on everything explored' % prop)
  return 0


def build_evidence(prop, tier, seed, spec, agg, wall, n_viol, det_checked,
                   skipped_blocks, harness_errors, known_lines, reported):
  runs = sum(a['runs'] for a in agg.values())
  # batches are different machines / profiles: their signatures never coincide
  n_signatures = sum(len(a['signatures']) for a in agg.values())
  states = set()
  transitions = set()
  for bid, a in agg.items():
    states.update(bid.split(':')[0] + s for s in a['states'])
    transitions.update(bid.split(':')[0] + s for s in a['transitions'])
  faults = {}
  probes = {}
  per_batch = {}
  samples = []
  for bid, a in sorted(agg.items()):
    for k, v in a['faults'].items():
      faults[k] = faults.get(k, 0) + v
    for k, v in a['probes'].items():
      probes[bid + '/' + k] = v
    per_batch[bid] = {
        'runs': a['runs'], 'blocks': a['blocks'],
        'blocks_under_python_O': a['blocks_O'],
        'nontrivial_runs': a['nontrivial'], 'ops': a['ops'],
        'compared': a['compared'], 'faults_fired': a['faults'],
        'skipped': a['skipped'], 'abstract_states': len(a['states']),
        'abstract_transitions': len(a['transitions']),
        'distinct_nontrivial_signatures': len(a['signatures'])}
    samples.extend(a['samples'][:2])
  from sim import worker  # pylint: disable=g-import-not-at-top
  rules = {}
  comps = {}
  for b in spec['batches']:
    m = worker.load_machine(b['machine'])
    rules[b['machine']] = m.RULE
    comps[b['machine']] = m.COMPONENTS
  return {
      'property_id': prop,
      'tier': tier,
      'seed': seed,
      'level': 'exploration',
      'wall_s': round(wall, 2),
      'violations': n_viol,
      'coverage': {
          'evaluations': runs,
          'distinct_nontrivial': n_signatures,
          'rule': ' || '.join('%s: %s' % kv for kv in sorted(rules.items())),
          'samples': samples[:4],
          'states': len(states),
          'transitions': len(transitions),
          'ops_executed': sum(a['ops'] for a in agg.values()),
          'answers_compared': sum(a['compared'] for a in agg.values()),
          'runs_per_hour': round(runs / wall * 3600.0) if wall > 0 else 0,
          'seeds_per_hour': round(runs / wall * 3600.0) if wall > 0 else 0,
          'simulated_time': 'n/a: the system under test has no clock or '
                            'timer; logical time is counted in operations '
                            '(ops_executed) and injected line events',
          'faults_fired': faults,
          'probes': probes,
          'per_batch': per_batch,
          'blocks_not_started_wall_cap': skipped_blocks,
          'determinism_rechecks': det_checked,
          'components': comps,
          'workers': NPROC,
          'tree_hash': core.tree_hash(),
          'repo': core.repo_root(),
          'known_findings_reported': known_lines,
          'violation_classes_reported': [r[0] for r in reported],
          'harness_errors': harness_errors[:5],
      },
      'assumptions': [
          'sampling, not enumeration: a clean batch is evidence, not proof',
          'bit-exact comparison with a freshly built object assumes the code '
          'is deterministic given (inputs, RNG state, hash seed); re-checked '
          'on a sample in every run (determinism_rechecks) and by '
          'sim/selftest.py',
          'CPython 3.12 / numpy / pandas / scipy as installed in /venv are '
          'trusted',
      ],
  }


def _env_int(name, default=0):
  """An integer from the environment; anything else is hashed to one."""
  raw = (os.environ.get(name) or '').strip()
  if not raw:
    return default
  try:
    return int(raw)
  except ValueError:
    return core.derive('env', name, raw)


def main():
  import signal  # pylint: disable=g-import-not-at-top
  signal.signal(signal.SIGTERM, _kill_children)
  signal.signal(signal.SIGINT, _kill_children)
  ap = argparse.ArgumentParser()
  ap.add_argument('prop', nargs='?')
  env_tier = os.environ.get('VERIF_TIER')
  ap.add_argument('--tier',
                  default=env_tier if env_tier in ('quick', 'thorough')
                  else 'quick', choices=['quick', 'thorough'])
  ap.add_argument('--replay')
  args = ap.parse_args()
  if args.replay:
    rep = core.read_json(args.replay)
    p = subprocess.run([PY, WORKER, 'replay', os.path.abspath(args.replay)],
                       cwd=core.VERIF_DIR,
                       env=worker_env(rep.get('hashseed', 0)))
    return p.returncode
  if args.prop not in CHECKS:
    ap.error('property must be one of %s' % sorted(CHECKS))
  seed = _env_int('VERIF_SEED')
  return run_check(args.prop, args.tier, seed)


def _guarded_main():
  """An exception of the DRIVER (fork failure, full disk, a replay that timed
  out) must never look like a verdict: Python's default exit status for an
  uncaught exception is 1, the VIOLATION code."""
  try:
    return main()
  except SystemExit:
    raise
  except KeyboardInterrupt:
    print('HARNESS-ERROR interrupted', flush=True)
    return 2
  except BaseException as e:  # pylint: disable=broad-except
    import traceback  # pylint: disable=g-import-not-at-top
    traceback.print_exc()
    print('HARNESS-ERROR driver exception %s: %s' % (
        type(e).__name__, str(e).replace('VIOLATION', 'violation')[:300]),
          flush=True)
    return 2


if __name__ == '__main__':
  sys.exit(_guarded_main())
