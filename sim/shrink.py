"""Minimise a failing run description (ddmin over ops + config passes).

A candidate is kept only while it still fails with the same violation *class*
(property / invariant / op kind at the failing step).  Execution is the
machine's pure `execute(desc)`, so shrinking never touches a PRNG.
"""
import copy
import time


class Budget:
  """Bounded number of executions AND bounded wall time (parent-side clock:
  it only decides when shrinking stops, never what a run does)."""

  def __init__(self, n, seconds=None):
    self.left = n
    self.used = 0
    self.deadline = None if seconds is None else time.time() + seconds

  def take(self):
    if self.left <= 0:
      return False
    if self.deadline is not None and time.time() > self.deadline:
      self.left = 0
      return False
    self.left -= 1
    self.used += 1
    return True


def _still_fails(machine, desc, target_cls, budget):
  if not budget.take():
    return False
  try:
    r = machine.execute(desc)
  except Exception:  # pylint: disable=broad-except
    return False
  v = r.get('violation')
  return bool(v) and v['cls'] == target_cls


def _with_ops(machine, desc, ops):
  d = copy.deepcopy(desc)
  d['ops'] = copy.deepcopy(ops)
  return machine.normalize(d)


def ddmin_ops(machine, desc, target_cls, budget):
  """Classic ddmin on the op list."""
  ops = desc['ops']
  n = 2
  while len(ops) >= 2 and budget.left > 0:
    chunk = max(1, len(ops) // n)
    reduced = False
    for start in range(0, len(ops), chunk):
      cand_ops = ops[:start] + ops[start + chunk:]
      if not cand_ops:
        continue
      cand = _with_ops(machine, desc, cand_ops)
      if _still_fails(machine, cand, target_cls, budget):
        desc, ops = cand, cand['ops']
        n = max(n - 1, 2)
        reduced = True
        break
    if not reduced:
      if chunk == 1:
        break
      n = min(len(ops), n * 2)
  return desc


def shrink(machine, desc, target_cls, max_execs=300, max_seconds=None):
  """Returns (minimised description, executions used)."""
  budget = Budget(max_execs, max_seconds)
  desc = machine.normalize(desc)
  # Cut everything after the failing step first: it is cheap and always valid.
  try:
    r = machine.execute(desc)
    v = r.get('violation')
    if v and v['cls'] == target_cls and v.get('step') is not None:
      cand = _with_ops(machine, desc, desc['ops'][:v['step'] + 1])
      if _still_fails(machine, cand, target_cls, budget):
        desc = cand
  except Exception:  # pylint: disable=broad-except
    pass
  changed = True
  rounds = 0
  while changed and budget.left > 0 and rounds < 6:
    rounds += 1
    changed = False
    before = len(desc['ops'])
    desc = ddmin_ops(machine, desc, target_cls, budget)
    if len(desc['ops']) < before:
      changed = True
    progress = True
    while progress and budget.left > 0:
      progress = False
      for cand in machine.simplifications(desc):
        cand = machine.normalize(cand)
        if cand == desc:
          continue
        if _still_fails(machine, cand, target_cls, budget):
          desc = cand
          progress = True
          changed = True
          break
  return desc, budget.used
