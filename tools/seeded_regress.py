#!/venv/bin/python
"""Re-run the quick checks against every stored seeded change and benign probe.

For each /verif/seeded/<id>/patch.diff (must be CAUGHT: exit 1 with a
VIOLATION line of its property) and each /verif/benign/<id>/patch.diff (must
HOLD: exit 0) a scratch copy of the repository's package is made under /tmp,
the patch applied to it, and the property's check pointed at it through
VERIF_REPO (evidence and replays redirected).  Nothing under /repo or
/verif/evidence is touched; scratch copies are removed.

usage: tools/seeded_regress.py [--width 3] [--tier quick] [id-substring ...]
"""
import json
import os
import shutil
import subprocess
import sys
import tempfile
import time

VERIF = os.path.dirname(os.path.dirname(os.path.abspath(__file__)))
PY = '/venv/bin/python'
REPO = os.path.abspath(os.environ.get('VERIF_REPO') or '/repo')


def main():
  args = sys.argv[1:]
  width, tier = 3, 'quick'
  if '--width' in args:
    i = args.index('--width')
    width = int(args[i + 1])
    del args[i:i + 2]
  if '--tier' in args:
    i = args.index('--tier')
    tier = args[i + 1]
    del args[i:i + 2]
  todo = []
  for kind in ('seeded', 'benign'):
    d = os.path.join(VERIF, kind)
    for sid in sorted(os.listdir(d)) if os.path.isdir(d) else []:
      if args and not any(a in sid for a in args):
        continue
      meta = json.load(open(os.path.join(d, sid, 'meta.json')))
      if meta.get('deliberately_not_caught'):
        kind_here = 'outside'      # recorded, expected NOT to be reported
      else:
        kind_here = kind
      todo.append((kind_here, sid, meta['property']))
  base = tempfile.mkdtemp(prefix='mm_scratch.')
  running, results = [], {}
  t0 = time.time()
  try:
    while todo or running:
      while todo and len(running) < width:
        kind, sid, prop = todo.pop(0)
        root = os.path.join(base, sid)
        shutil.copytree(os.path.join(REPO, 'matched_markets'),
                        os.path.join(root, 'matched_markets'),
                        ignore=shutil.ignore_patterns(
                            '__pycache__', 'notebook', 'csv', 'docs'))
        patch = os.path.join(VERIF, 'benign' if kind == 'benign' else 'seeded',
                             sid, 'patch.diff')
        p = subprocess.run(['patch', '-p1', '-s', '-i', patch], cwd=root,
                           capture_output=True, text=True)
        if p.returncode != 0:
          results[sid] = (kind, 'PATCH-FAILED ' + p.stdout[-200:])
          shutil.rmtree(root, ignore_errors=True)
          continue
        out = open(os.path.join(root, 'log.txt'), 'w+')
        env = dict(os.environ, VERIF_REPO=root,
                   VERIF_OUT=os.path.join(root, 'out'),
                   VERIF_WORKERS=str(max(2, 16 // width)))
        proc = subprocess.Popen(
            [PY, os.path.join(VERIF, 'sim', 'cli.py'), prop, '--tier', tier],
            stdout=out, stderr=subprocess.STDOUT, cwd=VERIF, env=env)
        running.append((kind, sid, prop, root, proc, out, time.time()))
      still = []
      for item in running:
        kind, sid, prop, root, proc, out, ts = item
        if proc.poll() is None:
          still.append(item)
          continue
        out.seek(0)
        text = out.read()
        out.close()
        viol = [l for l in text.splitlines()
                if l.startswith('violation class')]
        if kind == 'seeded':
          ok = proc.returncode == 1 and ('VIOLATION property=%s ' % prop) in text
          verdict = 'CAUGHT' if ok else 'MISSED'
        elif kind == 'outside':
          ok = proc.returncode == 0
          verdict = 'HOLDS' if ok else 'REPORTED'
        else:
          ok = proc.returncode == 0
          verdict = 'HOLDS' if ok else 'FALSE-ALARM'
        runs = sum(int(l.split(' in ')[1].split(' run')[0]) for l in viol
                   if ' in ' in l)
        results[sid] = (kind, verdict)
        # exceptions of the harness itself inside single runs (tolerated while
        # rare, but each one is a place where the harness assumed something
        # about the code under test)
        herr = sum(1 for l in text.splitlines()
                   if l.startswith(('WARNING', 'HARNESS-ERROR')))
        print('%-7s %-62s %-11s exit=%d %4.0fs  classes=%d runs=%d%s' % (
            kind, sid, verdict, proc.returncode, time.time() - ts, len(viol),
            runs, '  harness-exceptions=%d' % herr if herr else ''),
              flush=True)
        if herr and ok:
          print('\n'.join(l for l in text.splitlines() if l.startswith(
              ('WARNING', 'HARNESS-ERROR', '    ')))[-900:])
        if not ok:
          print(text[-1200:])
        shutil.rmtree(root, ignore_errors=True)
      running = still
      if running:
        time.sleep(0.3)
  finally:
    shutil.rmtree(base, ignore_errors=True)
  bad = [s for s, (k, v) in results.items()
         if v not in ('CAUGHT', 'HOLDS')]
  print('seeded_regress: %d changes in %.0fs; not as expected: %s' % (
      len(results), time.time() - t0, bad))
  return 1 if bad else 0


if __name__ == '__main__':
  sys.exit(main())
