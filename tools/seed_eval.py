#!/venv/bin/python
"""Confirm a seeded change made by a sub-agent and run a check against it.

usage: tools/seed_eval.py <worktree> <property> <seeded-id> [--tier quick] [--no-confirm]

1. demo.py must FAIL (exit 1) with the change and PASS (exit 0) without it;
2. the unit-test suite must give the baseline outcome with the change
   (same 529 passed, same 20 pre-existing failures);
3. the property's check is run against the changed tree (VERIF_REPO=<worktree>,
   evidence and replays redirected under <worktree>/out);
4. patch.diff, demo.py and meta.json are stored under /verif/seeded/<id>/.
"""
import json
import os
import shutil
import subprocess
import sys
import time

VERIF = os.path.dirname(os.path.dirname(os.path.abspath(__file__)))
PY = '/venv/bin/python'


def sh(cmd, cwd=None, env=None, timeout=3600):
  p = subprocess.run(cmd, shell=True, cwd=cwd, env=env, capture_output=True,
                     text=True, timeout=timeout)
  return p.returncode, p.stdout + p.stderr


def main():
  wt, prop, sid = sys.argv[1:4]
  tier = 'quick'
  if '--tier' in sys.argv:
    tier = sys.argv[sys.argv.index('--tier') + 1]
  confirm = '--no-confirm' not in sys.argv
  benign = '--benign' in sys.argv   # a CORRECT change: the check must hold
  if benign:
    confirm = False
  meta = {'id': sid, 'property': prop, 'worktree': wt}
  env = dict(os.environ, PYTHONPATH=wt)
  rc, diff = sh('git diff -- matched_markets', cwd=wt)
  assert diff.strip(), 'no change applied in ' + wt
  if confirm:
    rc_changed, out_changed = sh('%s demo.py' % PY, cwd=wt, env=env)
    # NOT git stash: the stash is shared by all worktrees of one repository.
    saved = os.path.join(wt, '.seed_eval_saved.diff')
    with open(saved, 'w') as f:
      f.write(diff)
    sh('git checkout -- matched_markets', cwd=wt)
    try:
      rc_orig, out_orig = sh('%s demo.py' % PY, cwd=wt, env=env)
    finally:
      rc_a, out_a = sh('git apply %s' % saved, cwd=wt)
      assert rc_a == 0, out_a
      os.remove(saved)
    print('demo: original exit=%d, changed exit=%d' % (rc_orig, rc_changed))
    print('  changed says: ' + out_changed.strip().splitlines()[-1][:300]
          if out_changed.strip() else '')
    meta['demo'] = {'original_exit': rc_orig, 'changed_exit': rc_changed,
                    'changed_last_line': (out_changed.strip().splitlines()
                                          or [''])[-1][:400]}
    rc, out = sh('%s -m pytest -q -p no:cacheprovider -n 8 '
                 'matched_markets/tests 2>&1 | tail -40' % PY, cwd=wt)
    failed = sorted(l.split(' - ')[0] for l in out.splitlines()
                    if l.startswith('FAILED'))
    base = sorted(l.strip() for l in open('/tmp/baseline_failed.txt')
                  if l.strip()) if os.path.exists(
                      '/tmp/baseline_failed.txt') else None
    summary = [l for l in out.splitlines() if ' passed' in l][-1:]
    print('tests with the change: %s; failed set == baseline: %s' % (
        summary, failed == base))
    meta['tests'] = {'summary': summary, 'same_failures_as_baseline':
                     failed == base}
    meta['confirmed'] = (rc_orig == 0 and rc_changed == 1 and failed == base
                         and bool(summary) and '529 passed' in summary[0])
  if benign:
    rc, out = sh('%s -m pytest -q -p no:cacheprovider -n 8 '
                 'matched_markets/tests 2>&1 | tail -40' % PY, cwd=wt)
    failed = sorted(l.split(' - ')[0] for l in out.splitlines()
                    if l.startswith('FAILED'))
    base = sorted(l.strip() for l in open('/tmp/baseline_failed.txt')
                  if l.strip())
    summary = [l for l in out.splitlines() if ' passed' in l][-1:]
    print('tests with the change: %s; failed set == baseline: %s' % (
        summary, failed == base))
    meta['tests'] = {'summary': summary,
                     'same_failures_as_baseline': failed == base}
  out_dir = os.path.join(wt, 'out')
  shutil.rmtree(out_dir, ignore_errors=True)
  env2 = dict(os.environ, VERIF_REPO=wt, VERIF_OUT=out_dir)
  t0 = time.time()
  rc, out = sh('%s sim/cli.py %s --tier %s' % (PY, prop, tier), cwd=VERIF,
               env=env2, timeout=7200)
  lines = [l for l in out.splitlines() if l.startswith(
      ('VIOLATION', 'violation class', 'HARNESS', 'OK ', 'explored', 'KNOWN'))]
  print('\n'.join(l[:400] for l in lines))
  print('check exit=%d in %.0fs' % (rc, time.time() - t0))
  meta['check'] = {'cmd': 'VERIF_REPO=<changed tree> sim/cli.py %s --tier %s'
                          % (prop, tier), 'exit': rc,
                   'caught': rc == 1,
                   'violation_lines': [l[:500] for l in lines
                                       if l.startswith('violation class')]}
  if benign:
    meta['check']['false_alarm'] = rc != 0
    meta['check'].pop('caught')
  dst = os.path.join(VERIF, 'benign' if benign else 'seeded', sid)
  os.makedirs(dst, exist_ok=True)
  with open(os.path.join(dst, 'patch.diff'), 'w') as f:
    f.write(diff)
  if os.path.exists(os.path.join(wt, 'demo.py')):
    shutil.copy(os.path.join(wt, 'demo.py'), os.path.join(dst, 'demo.py'))
  prev = {}
  if os.path.exists(os.path.join(dst, 'meta.json')):
    prev = json.load(open(os.path.join(dst, 'meta.json')))
  prev.update(meta)
  prev.pop('worktree', None)
  with open(os.path.join(dst, 'meta.json'), 'w') as f:
    json.dump(prev, f, indent=1, sort_keys=True)
  print('stored in ' + dst)


if __name__ == '__main__':
  main()
