"""C10 (and the search half of C14): one matched-markets object, many callers.

System under test: ONE real `TBRMatchedMarkets` built from one `TBRMMData`
built from the caller's frame, eligibility table and parameter object.  1-3
simulated callers share it; the seeded schedule (the order of `ops`)
interleaves their queries, atomic and in-flight (partially consumed) group
listings, both searches and repeated result retrievals with faults: RNG jumps,
calls the object must refuse, listings abandoned mid-way, cancellation
(KeyboardInterrupt / MemoryError) at a seeded source line inside a call, and
vandalism of returned lists.

Reference model: the abstract state is `last completed search`; the answer to
any call is what a FRESHLY BUILT object gives (for a retrieval: what the last
completed search returns on a freshly built object).  Fresh answers are
history-free by construction and are memoised per run.
"""
import copy
import dataclasses
import gc
import json
import math

from sim import core
from sim import faults

NAME = 'mm'
PROPERTY = 'C10'
RULE = ('one run = one TBRMatchedMarkets object over a seeded panel (3-7 '
        'geos, 12-40 dates, ids as digit strings / words / ints, optional '
        'eligibility table over the seven legal row types, any subset of the '
        'six constraints, n_geos_max, n_pretest_max, n_designs) shared by 1-3 '
        'simulated callers whose queries, atomic and in-flight listings, '
        'searches and retrievals are interleaved by the seeded schedule; '
        'fault kinds (separate batch): rng_jump, reject, abandon, interrupt '
        'at a seeded line event inside a call, mutate_snapshot (returned '
        'result list), mutate_returned (sets inside a query answer), '
        'mutate_designs (numpy arrays inside returned designs), sibling '
        '(an unrelated object with other data used in between). Every answer '
        'is compared bit-exactly with a freshly built object; the caller\'s '
        'frame, eligibility table and parameter object are compared with '
        'pristine copies after every step. Non-trivial: >= 2 state-changing '
        'steps (search, listing opened, interrupt, rng jump) and >= 1 '
        'compared answer after the first of them. Distinct: by (configuration '
        'shape, sequence of (op kind, abstract state)).')
COMPONENTS = {
    'TBRMatchedMarkets, TBRMMData, GeoEligibility, TBRMMDesignParameters, '
    'TBRMMDiagnostics, TBRMMScore, TBRMMDesign, HeapDict': 'real code',
    'numpy / pandas / scipy': 'real code (BLAS pinned to 1 thread)',
    'callers, schedule, RNG state, cancellation': 'simulated',
    'reference': 'the real classes freshly constructed from pristine inputs '
                 '(C10); sorted-multiset model of recorded pushes (C14)'}

QUERIES = ('geos_over_budget', 'geos_too_large', 'geos_must_include',
           'geos_within_constraints', 'geo_assignments', 'size_range', 'count')
ROW_TYPES = {'ctx': (1, 1, 1), 'ct': (1, 1, 0), 'c': (1, 0, 0), 't': (0, 1, 0),
             'x': (0, 0, 1), 'cx': (1, 0, 1), 'tx': (0, 1, 1)}
MODULES = ('geoeligibility', 'tbrmatchedmarkets', 'tbrmmdata',
           'tbrmmdesignparameters', 'heapdict')
_UNSET = object()
FAULT_KINDS = ('rng_jump', 'reject', 'abandon', 'interrupt', 'mutate_snapshot',
               'mutate_returned', 'sibling', 'mutate_designs')
INTERRUPTIBLE = ('q', 'dwc', 'list_t', 'list_c', 'step', 'exhaustive',
                 'greedy', 'results')


# --------------------------------------------------------------------------
# generation
# --------------------------------------------------------------------------
def _gen_panel(rng, tier, profile, stress=False, wide=False, nine=False):
  if nine:
    n_geos = rng.choice((9, 10))
  elif wide:
    # beyond platform thresholds (64-bit masks, 128/256-entry caches): many
    # geos, nearly all of them fixed by the eligibility table so that the
    # design space stays small
    n_geos = rng.choice((65, 66, 70, 130))
  elif profile == 'c14':
    n_geos = rng.choice((4, 5, 5, 6) if tier == 'thorough' else (4, 4, 5, 5))
  elif tier == 'thorough':
    n_geos = rng.choice((3, 4, 5, 5, 6, 6, 7))
  else:
    n_geos = rng.choice((3, 4, 4, 5, 5))
  if stress and not (wide or nine) and profile != 'c14' and n_geos < 6:
    # room for one or two geos to be excluded AND the cap on the number of
    # geos to bind on what is left
    n_geos += rng.choice((0, 1, 1))
  style = rng.choice(('digits', 'digits', 'words', 'int'))
  if wide and style == 'words':
    style = 'digits'
  if style == 'words':
    pool = ['aa', 'bb', 'cc', 'dd', 'ee', 'ff', 'gg', 'hh']
    if nine:
      pool += ['ii', 'jj']
    rng.shuffle(pool)
    geos = pool[:n_geos]
  else:
    start = rng.choice((0, 1, 7, 98))
    geos = [str(start + i) for i in range(n_geos)]
    rng.shuffle(geos)
  n_dates = rng.randrange(12, 41)
  trend, v = [], rng.uniform(8, 15)
  for i in range(n_dates):
    v = max(2.0, v + rng.gauss(0, 0.8) + 1.5 * math.sin(i * 2 * math.pi / 7))
    trend.append(v)
  noise = rng.choice((0.005, 0.02, 0.02, 0.1))
  degenerate = rng.random() < 0.06
  # heterogeneous noise: the ranking of geos by required impact then differs
  # from their ranking by volume
  hetero = stress or rng.random() < 0.5
  values = []
  for g in range(n_geos):
    size = math.exp(rng.gauss(0, 0.8)) * 3
    if degenerate and g == 0:
      values.append([round(size, 3)] * n_dates)   # a constant geo
      continue
    gn = noise * (rng.choice((0.2, 1.0, 5.0, 25.0)) if hetero else 1.0)
    values.append([round(size * t * (1 + rng.gauss(0, gn)) +
                         rng.gauss(0, noise), 3) for t in trend])
  if rng.random() < 0.15 and n_geos >= 3:
    # twin geos: identical series, so distinct designs tie exactly in score
    a, b = rng.sample(range(n_geos), 2)
    values[b] = list(values[a])
  missing = []
  if rng.random() < 0.15:
    for _ in range(rng.randrange(1, 4)):
      missing.append([rng.randrange(n_geos), rng.randrange(n_dates)])
  # 4. response scale: units, thousands, millions, fractions
  scale = rng.choice((1.0, 1.0, 1.0, 1e3, 1e6, 1e-3))
  if scale != 1.0:
    values = [[round(v * scale, 6) for v in row] for row in values]
  return {'geos': geos, 'id_type': 'int' if style == 'int' else 'str',
          'extra_column': rng.random() < 0.5, 'scale': scale,
          'date_type': rng.choice(('iso', 'iso', 'ts', 'int')),
          'n_dates': n_dates, 'values': values, 'missing': missing,
          'row_order_seed': rng.randrange(10**6)}


def _gen_elig(rng, panel, stress=False, wide=False, nine=False):
  if nine:
    geos = list(panel['geos'])
    trt = set(rng.sample(range(len(geos)), 3))
    return [[g] + list(ROW_TYPES['tx' if i in trt else 'cx'])
            for i, g in enumerate(geos)]
  if wide:
    geos = list(panel['geos'])
    # the free geos are among the smallest as well as the largest, so that
    # some of them sit beyond position 64 of any size-ordered index
    by_size = sorted(range(len(geos)),
                     key=lambda i: -sum(panel['values'][i]))
    free = set(rng.sample(by_size[:8], 2) + rng.sample(by_size[-5:], 2))
    rows = []
    for i, g in enumerate(geos):
      kind = (rng.choice(('ctx', 'ctx', 'tx', 'ct')) if i in free else 'c')
      rows.append([g] + list(ROW_TYPES[kind]))
    return rows
  if not stress and rng.random() < 0.45:
    return None
  mix = rng.choice(('mostly_free', 'mixed', 'fixed_heavy'))
  if stress:
    mix = rng.choice(('mixed', 'fixed_heavy'))
  rows = []
  for g in panel['geos']:
    if mix == 'mostly_free':
      kind = rng.choice(('ctx',) * 6 + ('ct', 'cx', 'tx', 't', 'c', 'x'))
    elif mix == 'mixed':
      kind = rng.choice(('ctx', 'ctx', 'ct', 'cx', 'tx', 't', 'c', 'x'))
    else:
      kind = rng.choice(('ctx', 't', 'c', 'ct', 'tx', 'cx'))
    rows.append([g] + list(ROW_TYPES[kind]))
  if rng.random() < 0.15 and len(rows) > 3:
    rows.pop(rng.randrange(len(rows)))      # table covers a subset of the data
  rng.shuffle(rows)
  return rows


def _gen_par(rng, panel, profile, stress=False):
  n_dates = panel['n_dates']
  n_test = rng.choice((1, 2, 3, 5, 7))
  n_test = max(1, min(n_test, n_dates - 5))
  par = {'n_test': n_test, 'iroas': rng.choice((1.0, 1.0, 2.5, 0.5))}
  tot = sum(sum(v) / len(v) for v in panel['values']) * n_test
  def maybe(p):
    return rng.random() < p
  if maybe(0.3):
    par['volume_ratio_tolerance'] = rng.choice((0.5, 2.0, 10.0))
  if maybe(0.3):
    par['geo_ratio_tolerance'] = rng.choice((0.5, 1.0, 3.0))
  if maybe(0.25):
    par['treatment_share_range'] = rng.choice(
        ([0.05, 0.6], [0.1, 0.9], [0.3, 0.5], [0.01, 0.99]))
  if maybe(0.3):
    par['budget_range'] = rng.choice(
        ([0.0, tot * 10], [0.0, tot * 0.05],
         [tot * 0.001, tot * 0.5],
         [0.0, tot * 0.3], [0.0, tot * 0.006], [0.0, tot * 0.0015]))
  if maybe(0.3):
    par['treatment_geos_range'] = rng.choice(([1, 2], [2, 3], [1, 1], [1, 4]))
  if maybe(0.3):
    par['control_geos_range'] = rng.choice(([1, 2], [2, 3], [1, 1], [1, 4]))
  if maybe(0.3):
    par['n_geos_max'] = rng.choice((2, 3, 3, 4))
  if maybe(0.4):
    par['n_pretest_max'] = rng.randrange(max(3, n_test + 3), n_dates + 5)
  if stress:
    # several geo-level constraints binding at once
    n_geos = len(panel['geos'])
    par['n_geos_max'] = max(2, n_geos - rng.choice((1, 1, 2, 2, 3)))
    if rng.random() < 0.6:
      par['budget_range'] = rng.choice(([0.0, tot * 0.05], [0.0, tot * 0.006],
                                        [0.0, tot * 0.0015],
                                        [tot * 0.0002, tot * 0.01]))
    if rng.random() < 0.4:
      par['treatment_share_range'] = rng.choice(([0.05, 0.6], [0.1, 0.9]))
  if profile == 'c14':
    par['n_designs'] = rng.choice((1, 2, 3, 5, 8, 50))
    if len(panel['geos']) >= 6 and rng.random() < 0.3:
      par['n_designs'] = rng.choice((256, 257, 300))   # beyond 256
  elif maybe(0.7):
    par['n_designs'] = rng.choice((1, 2, 3, 5, 8))
  if 'n_designs' in par and maybe(0.15):
    par['n_designs'] = float(par['n_designs'])   # integral float: accepted
  if maybe(0.15):
    par['sig_level'] = rng.choice((0.8, 0.95))
  if maybe(0.15):
    par['power_level'] = rng.choice((0.5, 0.9))
  if maybe(0.15):
    par['min_corr'] = rng.choice((0.9, 0.99))
  if maybe(0.1):
    par['rho_max'] = rng.choice((0.9, 0.99))
  return par


def _picks(rng, n):
  return [rng.randrange(64) for _ in range(n)]


def _gen_ops(rng, tier, profile, n_geos, stress=False):
  n_clients = rng.choice((1, 2, 2, 3))
  listing_heavy = False
  if profile == 'c14':
    n_steps = rng.randrange(3, 9)
    w = {'q': 6, 'exhaustive': 12, 'greedy': 14, 'results': 16, 'dwc': 2}
    enabled = set()
    if rng.random() < 0.5:
      # the caller vandalises the list it was handed (like read_mutate on the
      # container): later retrievals must still be capped and best-first
      w['mutate_snapshot'] = 10
      enabled.add('mutate_snapshot')
  else:
    n_steps = rng.randrange(6, 17 if tier == 'quick' else 31)
    w = {'q': 30, 'dwc': 8, 'list_t': 6, 'list_c': 6, 'open': 10, 'step': 22,
         'close': 2, 'exhaustive': 5, 'greedy': 8, 'results': 14}
    r_style = rng.random()
    listing_heavy = r_style < 0.15
    search_heavy = 0.15 <= r_style < 0.25
    # (stacked geo-level constraints are where the constraint sets interact:
    # there the sweep is three times as frequent)
    sweep = 0.25 <= r_style < (0.61 if stress else 0.37)
    if search_heavy:
      # several searches of both kinds on one object, retrievals in between
      w.update({'exhaustive': 16, 'greedy': 18, 'results': 18, 'q': 16,
                'step': 8, 'open': 5})
    if listing_heavy:
      # listing-heavy: several listings in flight, stepped far, crossed by
      # other listings and searches
      w.update({'q': 14, 'open': 25, 'step': 45, 'list_c': 12, 'list_t': 8,
                'exhaustive': 8, 'close': 1})
    enabled = set()
    if profile == 'faults':
      for f in FAULT_KINDS:
        if rng.random() < 0.5:
          enabled.add(f)
      if not enabled:
        enabled.add(rng.choice(FAULT_KINDS))
      if 'rng_jump' in enabled:
        w['rng_jump'] = 6
      if 'reject' in enabled:
        w['reject'] = 6
      if 'abandon' in enabled:
        w['abandon'] = 4
      if 'mutate_snapshot' in enabled:
        w['mutate_snapshot'] = 7
      if 'mutate_designs' in enabled:
        w['mutate_designs'] = 5
      if 'mutate_returned' in enabled:
        w['mutate_returned'] = 8
      if 'sibling' in enabled:
        w['sibling'] = 7
      if listing_heavy:
        # ... and what queries hand out while listings are suspended is
        # treated by the caller as its own
        enabled.add('mutate_returned')
        w['mutate_returned'] = 14
  p_interrupt = rng.choice((0.1, 0.2, 0.35)) if 'interrupt' in enabled else 0
  max_searches = 3 if profile != 'c14' else 4
  if profile != 'c14' and search_heavy:
    max_searches = 4
  ops = []
  open_lids = []
  next_lid = 0
  n_search = 0
  have_list = False
  have_answer = False
  follow_up = None
  last_q = None
  if listing_heavy and 'mutate_returned' in enabled and rng.random() < 0.6:
    # scripted opening: a listing is started and left suspended; what queries
    # hand out meanwhile is modified by the caller, and the question asked
    # again -- then the random history goes on with the listing still alive
    op = {'op': 'open', 'c': 0, 'lid': next_lid}
    if rng.random() < 0.5:
      op.update({'kind': 't', 'n': rng.choice((1, 2, 2))})
    else:
      op.update({'kind': 'c', 't': _picks(rng, rng.choice((1, 1, 2)))})
    ops.append(op)
    ops.append({'op': 'step', 'c': 0, 'lid': next_lid, 'k': 1})
    open_lids.append(next_lid)
    next_lid += 1
    for _ in range(rng.choice((1, 2, 2))):
      name = rng.choice(['geo_assignments', 'geo_assignments'] + list(QUERIES))
      last_q = {'op': 'q', 'c': rng.randrange(n_clients), 'name': name}
      ops.append(dict(last_q))
      ops.append({'op': 'mutate_returned', 'c': last_q['c'],
                  'how': rng.choice(('clear', 'add', 'discard_one'))})
      ops.append(dict(last_q))
    have_answer = True
  for _ in range(n_steps):
    kinds = [k for k in w
             if not (k in ('step', 'close', 'abandon') and not open_lids)
             and not (k == 'open' and len(open_lids) >= 3)
             and not (k in ('mutate_snapshot', 'mutate_designs')
                      and not have_list)
             and not (k == 'mutate_returned' and not have_answer)
             and not (k in ('exhaustive', 'greedy') and n_search >= max_searches)]
    kind = rng.choices(kinds, weights=[w[k] for k in kinds])[0]
    # the informative sequel of a vandalising step: after the caller scribbled
    # on designs it was handed, a SEARCH (are later scores affected?); after it
    # modified a returned container, the SAME question again (is the answer
    # served from what the caller now holds?)
    if follow_up == 'search' and n_search <= max_searches and (
        rng.random() < 0.7):
      kind = rng.choice(('exhaustive', 'greedy', 'greedy'))
    elif follow_up == 'ask_again' and last_q is not None and (
        rng.random() < 0.6):
      kind = last_q['op']
    ask_again = follow_up == 'ask_again' and last_q is not None and (
        kind == last_q['op'])
    follow_up = None
    op = {'op': kind, 'c': rng.randrange(n_clients)}
    if ask_again:
      op.update({k: v for k, v in last_q.items() if k not in ('op', 'c', 'interrupt')})
    elif kind == 'q':
      op['name'] = rng.choice(QUERIES)
      if listing_heavy and open_lids and rng.random() < 0.5:
        op['name'] = 'geo_assignments'
      have_answer = True
    elif kind == 'mutate_returned':
      op['how'] = rng.choice(('clear', 'add', 'discard_one'))
      follow_up = 'ask_again'
    elif kind == 'mutate_designs':
      follow_up = 'search'
    elif kind == 'sibling':
      op['variant'] = rng.randrange(2)
      op['what'] = rng.choice(('greedy', 'greedy', 'exhaustive', 'query',
                               'results'))
    elif kind == 'dwc':
      op['t'] = _picks(rng, rng.choice((1, 1, 2, 3)))
      op['ctl'] = _picks(rng, rng.choice((1, 1, 2, 3)))
    elif kind == 'list_t':
      op['n'] = rng.choice((1, 1, 2, 2, 3, n_geos))
      have_answer = True
    elif kind == 'list_c':
      op['t'] = _picks(rng, rng.choice((1, 1, 2)))
      have_answer = True
    elif kind == 'open':
      op['lid'] = next_lid
      open_lids.append(next_lid)
      next_lid += 1
      if rng.random() < 0.5:
        op['kind'] = 't'
        op['n'] = rng.choice((1, 2, 2, 3))
      else:
        op['kind'] = 'c'
        op['t'] = _picks(rng, rng.choice((1, 1, 2)))
    elif kind == 'step':
      op['lid'] = rng.choice(open_lids)
      op['k'] = rng.choice((1, 1, 2, 3, 5, 8))
    elif kind in ('close', 'abandon'):
      op['lid'] = rng.choice(open_lids)
      open_lids.remove(op['lid'])
    elif kind in ('exhaustive', 'greedy'):
      n_search += 1
      have_list = True
    elif kind == 'results':
      have_list = True
    elif kind == 'rng_jump':
      op['seed'] = rng.randrange(2**31)
    elif kind == 'reject':
      op['what'] = rng.choice(('list_t_zero', 'list_t_negative', 'list_c_empty',
                               'list_c_invalid', 'open_t_zero',
                               'open_c_invalid'))
    elif kind == 'mutate_snapshot':
      op['how'] = rng.choice(('clear', 'pop', 'reverse', 'append_none'))
    if kind in ('q', 'list_t', 'list_c'):
      last_q = op
    if kind in INTERRUPTIBLE and rng.random() < p_interrupt:
      exc = rng.choice(('KeyboardInterrupt', 'KeyboardInterrupt',
                        'MemoryError'))
      if kind == 'step' or rng.random() < 0.2:
        op['interrupt'] = {'line': rng.randrange(1, 60), 'exc': exc}
      else:
        op['interrupt'] = {'frac': round(rng.random(), 4) or 0.5, 'exc': exc}
    ops.append(op)
  if profile != 'c14' and sweep:
    # every constraint set / assignment / range / count asked once at the
    # start and once more at the end, each time in another order
    head = [{'op': 'q', 'c': rng.randrange(n_clients), 'name': q}
            for q in rng.sample(QUERIES, len(QUERIES))]
    tail = [{'op': 'q', 'c': rng.randrange(n_clients), 'name': q}
            for q in rng.sample(QUERIES, len(QUERIES))]
    ops = head + ops + tail
  if n_search == 0:
    pos = rng.randrange(0, max(1, len(ops) // 2) + 1)
    ops.insert(pos, {'op': rng.choice(('exhaustive', 'greedy', 'greedy')),
                     'c': 0})
  ops.append({'op': 'results', 'c': 0})
  ops.append({'op': 'q', 'c': 0, 'name': rng.choice(QUERIES)})
  return ops, sorted(enabled)


def generate(rng, tier, profile='faultfree'):
  # swarm: a quarter of the runs stack the geo-level constraints (binding
  # n_geos_max, budget / share ranges, mixed eligibility, impact ranking
  # different from the volume ranking) instead of drawing them independently
  stress = profile != 'c14' and rng.random() < 0.25
  r_shape = rng.random()
  wide = r_shape < 0.04
  nine = 0.04 <= r_shape < 0.10
  panel = _gen_panel(rng, tier, profile, stress, wide, nine)
  elig = _gen_elig(rng, panel, stress, wide, nine)
  par = _gen_par(rng, panel, profile, stress and not (wide or nine))
  if wide or nine:
    par.pop('n_geos_max', None)
  if nine:
    # groups of 3-4 geos out of 9-10: index sets whose iteration order is not
    # ascending (hash collisions in an 8-slot table) and float sums that round
    par['treatment_geos_range'] = rng.choice(([1, 1], [1, 2]))
    par['control_geos_range'] = rng.choice(([3, 3], [3, 4], [3, 4]))
    par['n_designs'] = rng.choice((8, 8, 50))
    for k in ('geo_ratio_tolerance', 'volume_ratio_tolerance',
              'treatment_share_range', 'budget_range'):
      par.pop(k, None)
  sibling_par = None
  if profile != 'c14' and rng.random() < 0.04:
    # an earlier tenant of the process with "hash twin" levels: parameters
    # that differ but hash alike (see core.HASH_TWINS); it is built and
    # queried BEFORE the object under test exists
    a, b = rng.choice(core.HASH_TWINS)
    which = rng.choice(('sig_level', 'power_level'))
    if rng.random() < 0.5:
      a, b = b, a
    par[which] = a
    sibling_par = {which: b}
  data_pre = None
  if profile != 'c14' and rng.random() < 0.08:
    # the data object has a past of its own: before the matched-markets object
    # is built on it, the caller used it through its public API (fixed a geo
    # index -- all geos, or the very list an earlier analysis had chosen --
    # and aggregated once).  With a pre-test window that truncates the panel.
    data_pre = rng.choice(('index_all', 'index_as_chosen', 'index_as_chosen'))
    n_test = par['n_test']
    if panel['n_dates'] > n_test + 4:
      par['n_pretest_max'] = rng.randrange(max(3, n_test + 3),
                                           panel['n_dates'])
  ops, enabled = _gen_ops(rng, tier, profile, len(panel['geos']),
                           stress=stress)
  if wide or nine:
    # both kinds of search on the one object, whatever else happens
    for kind in ('exhaustive', 'greedy'):
      if not any(op['op'] == kind for op in ops):
        ops.insert(rng.randrange(0, len(ops) - 1), {'op': kind, 'c': 0})
  return {'machine': NAME, 'profile': profile,
          'focus': 'C14' if profile == 'c14' else 'C10',
          'panel': panel, 'elig': elig, 'par': par,
          'rng0': rng.randrange(2**31), 'faults_enabled': enabled,
          'pre_sibling': sibling_par, 'data_pre': data_pre,
          'max_designs': 320 if tier == 'quick' else 1500,
          'ops': ops}


# --------------------------------------------------------------------------
# environment: the caller's inputs
# --------------------------------------------------------------------------
class _NoReference(Exception):
  """No reference object could be built from the pristine inputs."""


class Env:
  """Builds the caller's frame / table / parameters from the description."""

  def __init__(self, desc):
    import random as _random  # pylint: disable=g-import-not-at-top
    import numpy as np  # pylint: disable=g-import-not-at-top
    import pandas as pd  # pylint: disable=g-import-not-at-top
    self.np, self.pd = np, pd
    # one simulated run = one simulated process: modules re-executed
    self.mods = tuple(core.fresh_modules(*MODULES))
    panel = desc['panel']
    as_int = panel.get('id_type') == 'int'
    geos = [int(g) if as_int else str(g) for g in panel['geos']]
    n_dates = len(panel['values'][0]) if panel['values'] else 0
    dt = panel.get('date_type', 'iso')
    if dt == 'int':
      dates = list(range(n_dates))
    else:
      base = pd.Timestamp('2020-01-01')
      stamps = [base + pd.Timedelta(days=i) for i in range(n_dates)]
      dates = stamps if dt == 'ts' else [s.strftime('%Y-%m-%d')
                                          for s in stamps]
    missing = {(a, b) for a, b in panel.get('missing', [])}
    rows = []
    for gi, g in enumerate(geos):
      for di in range(n_dates):
        if (gi, di) not in missing:
          rows.append((g, dates[di], float(panel['values'][gi][di]), 1.0))
    _random.Random(panel.get('row_order_seed', 0)).shuffle(rows)
    self._df0 = pd.DataFrame(rows, columns=['geo', 'date', 'response', 'cost'])
    if not panel.get('extra_column', True):
      del self._df0['cost']       # exactly the three required columns
    if desc.get('elig'):
      erows = [[int(r[0]) if as_int else str(r[0])] + list(r[1:])
               for r in desc['elig']]
      self._elig0 = pd.DataFrame(
          erows, columns=['geo', 'control', 'treatment', 'exclude'])
    else:
      self._elig0 = None
    self._ref_mods = None
    self.data_pre_done = False
    self._par_overrides = {}
    self._par_kwargs = {}
    for k, v in desc['par'].items():
      self._par_kwargs[k] = tuple(v) if isinstance(v, list) else v

  def set_parameters(self, fields):
    self._par_overrides = {
        k: v for k, v in fields.items()
        if k not in self._par_kwargs or
        _par_state({k: self._par_kwargs[k]}) != _par_state({k: v})}
    self._ref_mods = None

  def frame(self):
    return self._df0.copy(deep=True)

  def sibling_frame(self, variant):
    """Different data of the same shape: an unrelated object's input."""
    df = self._df0.copy(deep=True)
    geos = sorted(df['geo'].unique(), key=str)
    mapping = dict(zip(geos, geos[1:] + geos[:1]))   # rotate the geo labels
    df['geo'] = df['geo'].map(mapping)
    df['response'] = df['response'] * (1.37 + variant) + 0.5 * variant
    return df

  def build_sibling(self, variant, par_overrides=None, same_data=False):
    geoeligibility, tbrmatchedmarkets, tbrmmdata = self.mods[:3]
    edf = self.elig_frame()
    elig = None if edf is None else geoeligibility.GeoEligibility(edf)
    frame = self.frame() if same_data else self.sibling_frame(variant)
    data = tbrmmdata.TBRMMData(frame, 'response', elig)
    par = self.parameters()
    if par_overrides:
      kwargs = dict(self._par_kwargs)
      kwargs.update(par_overrides)
      par = self.mods[3].TBRMMDesignParameters(**kwargs)
    return tbrmatchedmarkets.TBRMatchedMarkets(data, par)

  def elig_frame(self):
    return None if self._elig0 is None else self._elig0.copy(deep=True)

  def parameters(self, mods=None):
    par = (mods or self.mods)[3].TBRMMDesignParameters(**self._par_kwargs)
    # values an interrupted call left in the caller's object are written the
    # way the library wrote them: by attribute, past the constructor's
    # validation (a derived range like (1, 0) is not a legal user input)
    for k, v in self._par_overrides.items():
      setattr(par, k, v)
    return par

  def build_reference(self):
    """A freshly built object in the run's private reference module set.

    One reference module set per run (renewed when the caller's parameters
    are re-baselined): it isolates every reference object from whatever the
    object under test, or its siblings, left in process-global state.  The
    inputs of all reference objects of a run are identical, so on code without
    process-global state nothing can differ between them; on code WITH such
    state an earlier reference object may contaminate a later one, which can
    only produce a (deterministic, replayable) disagreement -- on code that
    has the defect.
    """
    try:
      return self.build(self.reference_set())
    except Exception as e:  # pylint: disable=broad-except
      raise _NoReference(e)

  def reference_set(self):
    if self._ref_mods is None:
      self._ref_mods = core.reference_modules(*MODULES)
    return self._ref_mods

  def build(self, mods=None, data_pre=None):
    """(mm, caller's frame, caller's table, caller's parameter object)."""
    mods = mods or self.mods
    geoeligibility, tbrmatchedmarkets, tbrmmdata = mods[:3]
    df = self.frame()
    edf = self.elig_frame()
    par = self.parameters(mods)
    elig = None if edf is None else geoeligibility.GeoEligibility(edf)
    data = tbrmmdata.TBRMMData(df, 'response', elig)
    if data_pre is not None:
      # the data object's own past (public API only); whatever it refuses is
      # simply not part of that past
      try:
        data.geo_index = (list(data.df.index) if data_pre == 'index_all'
                          else list(data_pre))
        data.aggregate_time_series(set(range(min(2, len(data.geo_index)))))
        self.data_pre_done = True
      except Exception:  # pylint: disable=broad-except
        pass
    mm = tbrmatchedmarkets.TBRMatchedMarkets(data, par)
    return mm, df, edf, par

  def frame_intact(self, df, pristine):
    if pristine is None:
      return df is None
    return (list(df.columns) == list(pristine.columns) and
            list(df.dtypes.astype(str)) == list(pristine.dtypes.astype(str))
            and df.index.equals(pristine.index) and df.equals(pristine))


# --------------------------------------------------------------------------
# the calls
# --------------------------------------------------------------------------
def _canon_answer(val):
  """canon() of an answer of the object under test; an answer that cannot
  even be canonicalised (a design whose geo groups are None, say) is still an
  answer -- and differs from whatever the reference gives."""
  try:
    return core.canon(val)
  except Exception as e:  # pylint: disable=broad-except
    return ['uncanonisable', type(val).__name__, type(e).__name__]


def _par_raw(par):
  """The caller's parameter object as a shallow dict of its fields."""
  try:
    return {f.name: getattr(par, f.name, None)
            for f in dataclasses.fields(par)}
  except Exception:  # pylint: disable=broad-except
    return dict(getattr(par, '__dict__', {}))


def _par_state(fields):
  """Comparable form of a field dict, whatever a library bug left in it (an
  array, a generator, ...): equality of parameter objects must never raise."""
  out = []
  for k in sorted(fields):
    try:
      v = fields[k]
      c = ['unset'] if v is _UNSET else core.canon(v)
      json.dumps(c)
    except Exception as e:  # pylint: disable=broad-except
      c = ['uncanonisable', type(fields[k]).__name__, type(e).__name__]
    out.append([k, c])
  return out


def _call(mm, op, res):
  """Performs the atomic call `op` on `mm`; returns the raw answer."""
  kind = op['op']
  if kind == 'q':
    name = op['name']
    if name == 'size_range':
      return mm.treatment_group_size_range()
    if name == 'count':
      return mm.count_max_designs()
    return getattr(mm, name)
  if kind == 'dwc':
    # Documented usage: the geo indices refer to an index order the caller has
    # installed first (the unit tests assign data.geo_index themselves); the
    # canonical order is installed by any access of geo_assignments.  Without
    # it a fresh object raises TypeError -- a precondition, not history.
    mm.geo_assignments  # pylint: disable=pointless-statement
    return mm.design_within_constraints(set(res['t']), set(res['ctl']))
  if kind == 'list_t':
    return list(mm.treatment_group_generator(res['n']))
  if kind == 'list_c':
    return list(mm.control_group_generator(set(res['t'])))
  if kind == 'exhaustive':
    return mm.exhaustive_search()
  if kind == 'greedy':
    return mm.greedy_search()
  if kind == 'results':
    return mm.search_results()
  raise RuntimeError('not an atomic call: ' + kind)


def _open(mm, res):
  # iter(): a listing is consumed step by step whatever iterable it is
  if res['kind'] == 't':
    return iter(mm.treatment_group_generator(res['n']))
  return iter(mm.control_group_generator(set(res['t'])))


class _RaisesAtFirstStep:
  """Stands in for a listing whose creation already raised: an implementation
  may validate its argument eagerly instead of at the first next()."""

  def __init__(self, exc):
    self._exc = exc

  def __iter__(self):
    return self

  def __next__(self):
    exc, self._exc = self._exc, None
    if exc is None:
      raise StopIteration
    raise exc

  def close(self):
    self._exc = None


def _open_lenient(mm, res):
  try:
    return _open(mm, res)
  except Exception as e:  # pylint: disable=broad-except
    if isinstance(e, faults.Injected):
      raise
    return _RaisesAtFirstStep(e)


def _close(gen):
  close = getattr(gen, 'close', None)
  if close is not None:
    close()


def _outcome(fn):
  try:
    v = fn()
  except Exception as e:  # pylint: disable=broad-except
    return core.canon(e)
  return _canon_answer(v)


REJECTS = {
    'list_t_zero': {'op': 'list_t', 'n': 0},
    'list_t_negative': {'op': 'list_t', 'n': -2},
    'list_c_empty': {'op': 'list_c', 'raw': []},
    'list_c_invalid': {'op': 'list_c', 'raw': [0, 977]},
    'open_t_zero': {'op': 'open', 'kind': 't', 'n': 0},
    'open_c_invalid': {'op': 'open', 'kind': 'c', 'raw': [977]},
}


def _design_sort_key(d):
  """The score tuple of a design as plain floats, or None if it has a NaN."""
  try:
    tup = tuple(float(v) for v in d.score.score)
  except Exception:  # pylint: disable=broad-except
    return None
  if any(math.isnan(v) for v in tup):
    return None
  return tup


# --------------------------------------------------------------------------
# execution
# --------------------------------------------------------------------------
def execute(desc):
  env = Env(desc)
  np = env.np
  np.seterr(all='ignore')
  focus = desc.get('focus', 'C10')
  prop = focus
  rng = faults.GlobalRng(np)
  interrupter = faults.LineInterrupter(core.methodology_dir())
  stats = {'ops': 0, 'compared': 0, 'faults': {}, 'probes': {}, 'skipped': {},
           'states': set(), 'transitions': set()}

  def probe(name, n=1):
    stats['probes'][name] = stats['probes'].get(name, 0) + n

  def fault(name):
    stats['faults'][name] = stats['faults'].get(name, 0) + 1

  def finish(viol, events, absig, nontrivial):
    stats['states'] = sorted(stats['states'])
    stats['transitions'] = sorted(stats['transitions'])
    return {'violation': viol, 'digest': core.digest_of(events),
            'signature': core.digest_of(absig), 'nontrivial': bool(nontrivial),
            'stats': stats}

  # ---- reference: freshly built objects, under a different RNG state -----
  memo = {}
  ref_seed = [core.derive('ref', desc.get('rng0', 0)) % (2**31)]

  def with_ref_rng(fn):
    saved = rng.save()
    ref_seed[0] = (ref_seed[0] * 1103515245 + 12345) % (2**31)
    rng.seed(ref_seed[0])
    try:
      # by-name lookups (pickle of own instances, late imports) made on the
      # reference's behalf must find the reference's own module set
      with env.reference_set().active():
        return fn()
    finally:
      rng.restore(saved)

  def ref_answer(key, fn):
    """canon(fn(fresh object)), memoised."""
    if key not in memo:
      def compute():
        mm_f = env.build_reference()[0]
        return _outcome(lambda: fn(mm_f))
      memo[key] = with_ref_rng(compute)
    return memo[key]

  def ref_lines(key, fn):
    k = 'lines:' + key
    if k not in memo:
      def compute():
        mm_f = env.build_reference()[0]
        return interrupter.run(lambda: fn(mm_f))[2]
      memo[k] = with_ref_rng(compute)
    return memo[k]

  def ref_listing(key, res):
    """(canon yields, terminal) of a listing on a fresh object."""
    k = 'listing:' + key
    if k not in memo:
      def compute():
        mm_f = env.build_reference()[0]
        out = []
        try:
          for g in _open_lenient(mm_f, res):
            out.append(core.canon(set(g)))
          return out, 'stop'
        except Exception as e:  # pylint: disable=broad-except
          return out, core.canon(e)
      memo[k] = with_ref_rng(compute)
    return memo[k]

  # ---- an earlier tenant of the process (optional) -------------------------
  rng.seed(desc.get('rng0', 0))
  if desc.get('pre_sibling'):
    try:
      early = env.build_sibling(0, desc['pre_sibling'], same_data=True)
      early.geos_within_constraints  # pylint: disable=pointless-statement
      early.count_max_designs()
      del early
      fault('earlier_tenant_with_hash_twin_parameters')
    except Exception:  # pylint: disable=broad-except
      pass
  # ---- build the object under test ----------------------------------------
  data_pre = desc.get('data_pre')
  if data_pre == 'index_as_chosen':
    def chosen():
      mm_f = env.build_reference()[0]
      mm_f.geo_assignments  # pylint: disable=pointless-statement
      return [core.canon(g) for g in mm_f.data.geo_index]
    try:
      data_pre = with_ref_rng(chosen)
    except Exception:  # pylint: disable=broad-except
      data_pre = 'index_all'
  try:
    mm, df_in, elig_in, par = env.build(data_pre=data_pre)
  except Exception as e:  # pylint: disable=broad-except
    stats['skipped']['construction_raised_' + type(e).__name__] = 1
    return finish(None, [], ['ctor'], False)
  if env.data_pre_done:
    fault('data_object_used_before')
  df0 = env.frame()
  elig0 = env.elig_frame()
  par_base = _par_raw(env.parameters())
  par_base_c = _par_state(par_base)
  if focus == 'C10':
    # the caller-owned inputs right after the object was built from them
    what = None
    if not env.frame_intact(df_in, df0):
      what = 'input frame'
    elif not env.frame_intact(elig_in, elig0):
      what = 'eligibility table'
    elif _par_state(_par_raw(par)) != par_base_c:
      what = 'parameter object'
    if what:
      v = core.violation(prop, 'I2', -1, 'construct',
                         'building the objects modified the caller\'s ' + what)
      return finish(v, [], ['ctor-modified'], False)

  # geometry of the index space, from a fresh object
  def geometry(mm_f):
    ga = mm_f.geo_assignments
    return [len(ga.all), sorted(ga.t)]
  try:
    geo = ref_answer('geometry', geometry)
  except _NoReference as e:
    # the object under test could be built from these inputs, a second object
    # from identical inputs could not: nothing to compare this run with
    stats['skipped']['reference_not_buildable_' +
                     type(e.args[0]).__name__] = 1
    return finish(None, [], ['no-reference'], False)
  if isinstance(geo, list) and len(geo) == 2 and isinstance(geo[0], int):
    n_idx, t_sorted = geo[0], list(geo[1])
  else:
    n_idx, t_sorted = 0, []
    probe('no_geos_admitted')
  count = ref_answer('q:count', lambda m: m.count_max_designs())
  if isinstance(count, int) and count > desc.get('max_designs', 1500):
    stats['skipped']['design_space_too_big'] = 1
    return finish(None, [], ['too_big'], False)

  def resolve(op):
    """Turns seeded picks into concrete index sets for this geometry."""
    kind = op['op']
    res = {}
    if kind == 'dwc':
      t = sorted({p % n_idx for p in op['t']}) if n_idx else []
      rest = [i for i in range(n_idx) if i not in t]
      c = sorted({rest[p % len(rest)] for p in op['ctl']}) if rest else []
      res = {'t': t, 'ctl': c}
    elif kind == 'list_t':
      res = {'n': op['n']}
    elif kind in ('list_c', 'open'):
      if kind == 'open':
        res['kind'] = op['kind']
      if op.get('kind') == 't':
        res['n'] = op['n']
      elif 'raw' in op:
        res['t'] = list(op['raw'])
      else:
        res['t'] = (sorted({t_sorted[p % len(t_sorted)] for p in op['t']})
                    if t_sorted else [])
      if kind == 'list_c' or op.get('kind') == 'c':
        res.setdefault('kind', 'c')
    return res

  # ---- C14: record the pushes of every bounded queue -----------------------
  heapdict_mod = env.mods[4]
  pushes = []
  orig_push = getattr(getattr(heapdict_mod, 'HeapDict', None), 'push', None)
  if focus == 'C14' and orig_push is not None:
    def recording_push(self, *args, **kwargs):
      if len(args) >= 2:
        pushes.append((args[0], args[1]))
      return orig_push(self, *args, **kwargs)
    heapdict_mod.HeapDict.push = recording_push
  elif focus == 'C14':
    # no HeapDict.push to record: the searches are judged by S0-S2 only
    stats['skipped']['no_HeapDict_push'] = 1

  events = []
  absig = [('cfg', desc.get('elig') is not None,
            tuple(sorted(k for k in desc['par'] if k not in ('n_test',
                                                             'iroas'))))]
  viol = None
  last_search = None            # last COMPLETED search kind
  results_trusted = True        # False between an interrupted search /
                                # retrieval and the next completed search
  listings = {}                 # lid -> dict(gen, key, res, pos)
  last_list = None
  last_answer = None            # raw answer of the last query / atomic listing
  siblings = {}
  n_state_changes = 0
  compared_after_change = 0
  flags = {'rng_jumped': False, 'interrupted': False, 'par_touched': False}
  search_pushes = {}            # kind -> score multiset (C14, hist object)

  def abstract_state():
    return (last_search, min(len(listings), 2), flags['rng_jumped'],
            flags['interrupted'], flags['par_touched'], results_trusted)

  prev_state = abstract_state()

  def check_search_list(step, kind, raw, pushed):
    """C14 S1-S3 on a list returned by a search or a retrieval."""
    try:
      n_designs = int(par_base['n_designs'])
    except Exception:  # pylint: disable=broad-except
      return None          # no readable cap: nothing to hold the list against
    if isinstance(raw, tuple):
      raw = list(raw)
    if not isinstance(raw, list):
      return None
    if len(raw) > n_designs:
      return core.violation('C14', 'S1', step, kind,
                            '%d designs returned, n_designs=%d' % (
                                len(raw), n_designs))
    if any(not hasattr(d, 'score') for d in raw):
      return core.violation('C14', 'S0', step, kind,
                            'the returned list holds something that is not a '
                            'design', got=[type(d).__name__ for d in raw])
    keys = [_design_sort_key(d) for d in raw]
    if any(k is None for k in keys):
      stats['skipped']['nan_score_in_result'] = (
          stats['skipped'].get('nan_score_in_result', 0) + 1)
      return None
    for i in range(len(keys) - 1):
      if keys[i] < keys[i + 1]:
        return core.violation(
            'C14', 'S2', step, kind,
            'result not in non-increasing score order at position %d' % i,
            got=[list(k) for k in keys])
    if pushed is not None and not pushed and raw:
      # designs came back but nothing went through HeapDict.push: this search
      # does not (or no longer) use the container that way; S3 has no history
      # to judge by (S0-S2 above still apply)
      stats['skipped']['no_pushes_recorded'] = (
          stats['skipped'].get('no_pushes_recorded', 0) + 1)
      pushed = None
    if pushed is not None:
      pk = [_design_sort_key(d) for _, d in pushed]
      if any(k is None for k in pk):
        stats['skipped']['nan_score_pushed'] = (
            stats['skipped'].get('nan_score_pushed', 0) + 1)
        return None
      exp = sorted(pk, reverse=True)[:n_designs]
      if len(pk) > n_designs:
        probe('search_evicted')
      if len(pk) < n_designs:
        probe('search_retained_fewer_than_n_designs')
      if not pk:
        probe('search_pushed_nothing')
      # a search may keep several queues (keys) and return one of them
      by_key = {}
      for (key, _), k in zip(pushed, pk):
        by_key.setdefault(key, []).append(k)
      alternatives = [sorted(v, reverse=True)[:n_designs]
                      for v in by_key.values()]
      if keys != exp and keys not in alternatives:
        return core.violation(
            'C14', 'S3', step, kind,
            'returned scores are not the %d largest of the %d designs the '
            'search pushed' % (n_designs, len(pk)),
            expected=[list(k) for k in exp], got=[list(k) for k in keys])
    return None

  try:
    for step, op in enumerate(desc['ops']):
      kind = op['op']
      stats['ops'] += 1
      label = kind + (':' + op['name'] if kind == 'q' else '')
      ev = [step, op.get('c', 0), label]
      state_change = False

      # ---- pure scheduler / fault steps -----------------------------------
      if kind == 'rng_jump':
        rng.seed(op['seed'])
        flags['rng_jumped'] = True
        fault('rng_jump')
        state_change = True
      elif kind == 'mutate_snapshot':
        if last_list is not None:
          how = op['how']
          try:
            if how == 'clear':
              del last_list[:]
            elif how == 'pop' and last_list:
              last_list.pop()
            elif how == 'reverse':
              last_list.reverse()
            elif how == 'append_none':
              last_list.append(None)
            fault('mutate_snapshot')
            state_change = True
          except Exception:  # pylint: disable=broad-except
            # a read-only list: the caller cannot disturb anything through it
            probe('returned_container_not_mutable')
      elif kind == 'mutate_designs':
        # the caller scribbles into the numpy arrays INSIDE the design objects
        # it was handed (series, residuals, Brownian-bridge bounds).  The API
        # hands designs out by reference, so what the stored results look like
        # afterwards is the caller's business (retrievals are not compared
        # until the next completed search) -- but no OTHER answer may change.
        n_written = 0
        for d in (last_list or []):
          try:
            n_written += _scribble_design(d, np)
          except Exception:  # pylint: disable=broad-except
            probe('returned_container_not_mutable')
        if n_written:
          fault('mutate_designs')
          results_trusted = False
          state_change = True
      elif kind == 'mutate_returned':
        # the caller treats what a query or listing handed it as its own
        if last_answer is not None:
          try:
            _vandalise(last_answer, op['how'])
            fault('mutate_returned')
            state_change = True
          except Exception:  # pylint: disable=broad-except
            probe('returned_container_not_mutable')
          last_answer = None
      elif kind == 'sibling':
        # an unrelated object (own data, own parameters) is used in the same
        # process between two calls on the object under test
        try:
          sib = siblings.get(op['variant'])
          if sib is None:
            sib = siblings[op['variant']] = env.build_sibling(op['variant'])
          what = op['what']
          if what == 'greedy':
            sib.greedy_search()
          elif what == 'exhaustive':
            sib.exhaustive_search()
          elif what == 'results':
            sib.search_results()
          else:
            sib.geo_assignments  # pylint: disable=pointless-statement
            sib.count_max_designs()
        except Exception:  # pylint: disable=broad-except
          pass
        fault('sibling_object_used')
        state_change = True
      elif kind in ('close', 'abandon'):
        lst = listings.pop(op['lid'], None)
        if lst is not None:
          if kind == 'close':
            try:
              _close(lst['gen'])
            except Exception:  # pylint: disable=broad-except
              probe('close_raised')
          else:
            if lst['pos'] > 0:
              probe('listing_abandoned_midway')
            lst['gen'] = None
            lst = None
            gc.collect()
            fault('abandon')
      elif kind == 'open' or (kind == 'reject' and
                              REJECTS[op['what']]['op'] == 'open'):
        src = op if kind == 'open' else dict(REJECTS[op['what']],
                                             lid='r%d' % step)
        res = resolve(src)
        key = json.dumps(res, sort_keys=True)
        gen = _open_lenient(mm, res)
        listings[src['lid']] = {'gen': gen, 'key': key, 'res': res, 'pos': 0,
                                'rejecting': kind == 'reject'}
        state_change = True
        if kind == 'reject':
          # drive it one step right away: it must refuse like a fresh one
          op = dict(op, op='step', lid=src['lid'], k=1)
          kind = 'step'
      # ---- stepping an in-flight listing ------------------------------------
      if kind == 'step':
        lst = listings.get(op['lid'])
        if lst is None:
          ev.append('listing_gone')
        else:
          ref_items, ref_term = ref_listing(lst['key'], lst['res'])
          if last_search is not None and lst['pos'] > 0:
            probe('listing_resumed_after_search')
          intr = op.get('interrupt')
          for _ in range(op.get('k', 1)):
            def one(lst=lst):
              return core.canon(set(next(lst['gen'])))
            if intr:
              at = intr.get('line') or 1 + int(intr.get('frac', 0) * 60)
              okind, val, _ = interrupter.run(
                  lambda: _take(one), at=at, exc_name=intr['exc'])
              intr = None
              if okind == 'interrupted':
                fault('interrupt_' + op['interrupt']['exc'])
                probe('interrupt_in_%s' % (val or ('?', 0, '?'))[2])
                flags['interrupted'] = True
                listings.pop(op['lid'], None)
                ev.append(['interrupted', list(val or ())])
                state_change = True
                break
              if okind == 'exc':
                got = _canon_answer(val)
              else:
                got = val
            else:
              got = _take(one)
            stats['compared'] += 1
            pos = lst['pos']
            if got == 'stop' or (isinstance(got, list) and got[:1] == ['exc']):
              exp = ref_term if pos == len(ref_items) else (
                  ref_items[pos] if pos < len(ref_items) else ref_term)
              listings.pop(op['lid'], None)
              if lst.get('rejecting') and got != 'stop':
                fault('reject')
              if got != exp or pos != len(ref_items):
                viol = core.violation(
                    prop, 'I1', step, 'step',
                    'in-flight listing ended after %d groups; a fresh '
                    'listing has %d and ends with %s' % (
                        pos, len(ref_items), json.dumps(ref_term)),
                    expected=exp, got=got)
              ev.append(got)
              break
            exp = ref_items[pos] if pos < len(ref_items) else ref_term
            if got != exp:
              viol = core.violation(
                  prop, 'I1', step, 'step',
                  'group %d of an in-flight listing differs from the fresh '
                  'listing' % pos, expected=exp, got=got)
              break
            lst['pos'] += 1
            ev.append(core.digest_of(got))
      # ---- atomic calls -----------------------------------------------------
      elif kind in ('q', 'dwc', 'list_t', 'list_c', 'exhaustive', 'greedy',
                    'results') or (kind == 'reject'):
        src = op if kind != 'reject' else REJECTS[op['what']]
        akind = src['op']
        res = resolve(src)
        call_op = dict(src)
        key = akind + ':' + json.dumps(
            {'name': src.get('name'), 'res': res}, sort_keys=True)
        if akind == 'results':
          key = 'search:%s' % last_search
        elif akind in ('exhaustive', 'greedy'):
          key = 'search:%s' % akind
        if akind == 'results' and last_search is not None:
          fn = (lambda m, k=last_search: m.exhaustive_search()
                if k == 'exhaustive' else m.greedy_search())
        else:
          fn = lambda m, o=call_op, r=res: _call(m, o, r)
        intr = op.get('interrupt')
        n_push_before = len(pushes)
        if intr:
          if 'line' in intr:
            at = intr['line']
          elif akind == 'results':
            at = 1 + int(intr['frac'] * 40)
          else:
            total = ref_lines(key, lambda m, o=call_op, r=res: _call(m, o, r))
            at = max(1, int(math.ceil(intr['frac'] * max(total, 1))))
          okind, val, _ = interrupter.run(
              lambda: _call(mm, call_op, res), at=at, exc_name=intr['exc'])
        else:
          try:
            val = _call(mm, call_op, res)
            okind = 'ok'
          except Exception as e:  # pylint: disable=broad-except
            val = e
            okind = 'exc'
        if okind == 'interrupted':
          fault('interrupt_' + intr['exc'])
          probe('interrupt_in_%s' % (val or ('?', 0, '?'))[2])
          probe('interrupted_call_%s' % akind)
          flags['interrupted'] = True
          state_change = True
          if akind in ('exhaustive', 'greedy', 'results'):
            results_trusted = False
          ev.append(['interrupted', list(val or ())])
          # An injected interrupt can land anywhere -- also inside the very
          # `finally:` block that restores the caller's parameters (seen in a
          # thorough run: interrupt at 99.92 % of greedy_search's lines), and
          # no Python code can be atomic against that.  So after an
          # INTERRUPTED call the parameter object is taken as the caller now
          # holds it: counted, re-baselined, and the reference is built from
          # it from now on.  (Exceptions the library raises by itself never
          # originate in cleanup code and relax nothing.)
          now = _par_raw(par)
          now_c = _par_state(now)
          if now_c != par_base_c and focus == 'C10':
            probe('param_leak_after_interrupt')
            flags['par_touched'] = True
            par_base, par_base_c = now, now_c
            env.set_parameters(now)
            for k in [k for k in memo if k != 'geometry']:
              del memo[k]
        else:
          if intr:
            probe('interrupt_missed')
          got = _canon_answer(val)
          compare = True
          if akind == 'results' and not results_trusted:
            compare = False
            probe('retrieval_after_interrupted_search_not_compared')
          if akind in ('exhaustive', 'greedy') and okind == 'ok':
            if last_search and last_search != akind:
              probe('%s_after_%s' % (akind, last_search))
            if flags['interrupted']:
              probe('search_after_interrupt')
            last_search = akind
            results_trusted = True
            state_change = True
            if isinstance(val, list) and not val:
              probe('empty_result_list')
            if akind == 'greedy' and t_sorted and isinstance(geo, list):
              pass
          if akind in ('q', 'list_t', 'list_c') and okind == 'ok':
            last_answer = val
          if akind == 'results' and okind == 'ok':
            probe('retrieval')
            if isinstance(val, list):
              last_list = val
          if akind in ('exhaustive', 'greedy') and isinstance(val, list):
            last_list = val
          if kind == 'reject' and okind == 'exc':
            fault('reject')
          if focus == 'C14':
            if okind == 'ok' and akind in ('exhaustive', 'greedy', 'results'):
              stats['compared'] += 1
              pushed = None
              if akind != 'results':
                pushed = pushes[n_push_before:]
                search_pushes[akind] = pushed
              elif last_search in search_pushes:
                pushed = search_pushes[last_search]
              viol = check_search_list(step, akind, val, pushed)
            ev.append(core.digest_of(got))
          elif compare:
            exp = ref_answer(key, fn)
            stats['compared'] += 1
            if n_state_changes:
              compared_after_change += 1
            if got != exp:
              what = ('the %s retrieval after %s differs from what the '
                      'search returns on a fresh object' % (
                          _ordinal(stats['probes'].get('retrieval', 1)),
                          last_search)
                      if akind == 'results' else
                      'answer differs from a freshly built object')
              viol = core.violation(
                  prop, 'I1', step, label if kind != 'reject' else 'reject',
                  '%s (%s)' % (what, core.first_difference(exp, got)),
                  expected=exp, got=got)
            ev.append(core.digest_of(got))
      if viol:
        break
      # ---- invariants on caller-owned objects, after every step -----------
      if focus == 'C10':
        now = _par_raw(par)
        if _par_state(now) != par_base_c:
          diff = sorted(k for k in set(now) | set(par_base)
                        if _par_state({k: now.get(k, _UNSET)}) !=
                        _par_state({k: par_base.get(k, _UNSET)}))
          viol = core.violation(
              prop, 'I3', step, label,
              'the caller\'s parameter object was modified: %s' % ', '.join(
                  '%s %.80r -> %.80r' % (k, par_base.get(k), now.get(k))
                  for k in diff))
          break
        if not env.frame_intact(df_in, df0):
          viol = core.violation(prop, 'I2', step, label,
                                'the caller\'s input frame was modified')
          break
        if not env.frame_intact(elig_in, elig0):
          viol = core.violation(prop, 'I2', step, label,
                                'the caller\'s eligibility table was modified')
          break
      if state_change:
        n_state_changes += 1
      events.append(ev)
      st = abstract_state()
      stats['states'].add(core.digest_of(st))
      stats['transitions'].add(core.digest_of([prev_state, label, st]))
      absig.append((label, st))
      prev_state = st
  except _NoReference as e:
    stats['skipped']['reference_not_buildable_' +
                     type(e.args[0]).__name__] = 1
  finally:
    if orig_push is not None:
      heapdict_mod.HeapDict.push = orig_push
    for lst in listings.values():
      try:
        _close(lst['gen'])
      except Exception:  # pylint: disable=broad-except
        pass

  if focus == 'C14':
    nontrivial = stats['compared'] >= 1 and n_state_changes >= 1
  else:
    nontrivial = n_state_changes >= 2 and compared_after_change >= 1
  return finish(viol, events, absig, nontrivial)


def _scribble_design(design, np):
  """Overwrites every numpy array reachable from a returned design."""
  n = 0
  diags = [getattr(design, 'diag', None),
           getattr(getattr(design, 'score', None), 'diag', None)]
  for diag in diags:
    if diag is None:
      continue
    arrays = []
    for name in ('x', 'y', 'pretestfit', 'bbtest', 'aatest', 'dwtest'):
      try:
        v = getattr(diag, name)
      except Exception:  # pylint: disable=broad-except
        continue
      vals = list(v) if isinstance(v, tuple) else [v]
      arrays.extend(a for a in vals if isinstance(a, np.ndarray))
    for a in arrays:
      try:
        a.fill(7)
        n += 1
      except Exception:  # pylint: disable=broad-except
        pass          # read-only arrays: nothing the caller can do
  return n


def _vandalise(answer, how):
  """The caller modifies the sets inside an answer it was handed."""
  sets = []
  if isinstance(answer, set):
    sets.append(answer)
  elif isinstance(answer, list):
    sets.extend(g for g in answer if isinstance(g, set))
  elif dataclasses.is_dataclass(answer):
    for f in dataclasses.fields(answer):
      v = getattr(answer, f.name, None)
      if isinstance(v, set):
        sets.append(v)
  for st in sets:
    if how == 'clear':
      st.clear()
    elif how == 'add':
      st.add('zz' if any(isinstance(e, str) for e in st) else 977)
    elif how == 'discard_one' and st:
      st.discard(min(st, key=str))
  if isinstance(answer, list) and how == 'clear':
    del answer[:]


def _take(one):
  try:
    return one()
  except StopIteration:
    return 'stop'
  except Exception as e:  # pylint: disable=broad-except
    if isinstance(e, faults.Injected):
      raise
    return core.canon(e)


def _ordinal(n):
  return '%d%s' % (n, {1: 'st', 2: 'nd', 3: 'rd'}.get(n if n < 20 else n % 10,
                                                      'th'))


# --------------------------------------------------------------------------
# shrinking support
# --------------------------------------------------------------------------
def normalize(desc):
  d = copy.deepcopy(desc)
  opened = set()
  ops = []
  for op in d['ops']:
    k = op['op']
    if k == 'open':
      opened.add(op['lid'])
    elif k in ('step', 'close', 'abandon'):
      if op['lid'] not in opened:
        continue
      if k != 'step':
        opened.discard(op['lid'])
    ops.append(op)
  d['ops'] = ops
  return d


def simplifications(desc):
  """Config passes: smaller / plainer inputs, fewer faults."""
  if desc.get('pre_sibling'):
    d = copy.deepcopy(desc)
    d['pre_sibling'] = None
    yield d
  if desc.get('data_pre'):
    d = copy.deepcopy(desc)
    d['data_pre'] = None
    yield d
    if desc['data_pre'] != 'index_all':
      d = copy.deepcopy(desc)
      d['data_pre'] = 'index_all'
      yield d
  if desc.get('elig') is not None:
    d = copy.deepcopy(desc)
    d['elig'] = None
    yield d
  for k in sorted(desc['par']):
    if k not in ('n_test', 'iroas'):
      d = copy.deepcopy(desc)
      del d['par'][k]
      yield d
  if desc['par'].get('n_designs', 1) > 1:
    d = copy.deepcopy(desc)
    d['par']['n_designs'] = 1
    yield d
  for i, op in enumerate(desc['ops']):
    if 'interrupt' in op:
      d = copy.deepcopy(desc)
      del d['ops'][i]['interrupt']
      yield d
  for i, op in enumerate(desc['ops']):
    if op.get('c', 0) != 0:
      d = copy.deepcopy(desc)
      for o in d['ops']:
        o['c'] = 0
      yield d
      break
  for i, op in enumerate(desc['ops']):
    if op['op'] == 'exhaustive':
      d = copy.deepcopy(desc)
      d['ops'][i]['op'] = 'greedy'
      yield d
  panel = desc['panel']
  n_geos = len(panel['geos'])

  def without(drop):
    d = copy.deepcopy(desc)
    keep = [i for i in range(n_geos) if i not in drop]
    gone = {str(d['panel']['geos'][i]) for i in drop}
    remap = {old: new for new, old in enumerate(keep)}
    d['panel']['geos'] = [d['panel']['geos'][i] for i in keep]
    d['panel']['values'] = [d['panel']['values'][i] for i in keep]
    d['panel']['missing'] = [[remap[a], b] for a, b in d['panel']['missing']
                             if a in remap]
    if d.get('elig'):
      d['elig'] = [r for r in d['elig'] if str(r[0]) not in gone] or None
    return d

  if n_geos > 8:
    # many geos: drop halves and quarters before single geos
    for parts in (2, 4, 8):
      size = max(1, n_geos // parts)
      for start in range(0, n_geos, size):
        drop = set(range(start, min(n_geos, start + size)))
        if len(drop) < n_geos - 1:
          yield without(drop)
  if n_geos > 2:
    for gi in range(n_geos - 1, max(-1, n_geos - 13), -1):
      yield without({gi})
  n_dates = len(panel['values'][0])
  for new in (max(8, n_dates // 2), n_dates - 1):
    if 8 <= new < n_dates:
      d = copy.deepcopy(desc)
      d['panel']['values'] = [v[-new:] for v in d['panel']['values']]
      d['panel']['n_dates'] = new
      d['panel']['missing'] = []
      yield d
  if panel.get('missing'):
    d = copy.deepcopy(desc)
    d['panel']['missing'] = []
    yield d
  if not panel.get('extra_column', True):
    d = copy.deepcopy(desc)
    d['panel']['extra_column'] = True
    yield d
  if panel.get('id_type') != 'str' or panel.get('date_type') != 'iso':
    d = copy.deepcopy(desc)
    d['panel']['id_type'] = 'str'
    d['panel']['date_type'] = 'iso'
    yield d
  rounded = [[float(round(v)) for v in row] for row in panel['values']]
  if rounded != panel['values']:
    d = copy.deepcopy(desc)
    d['panel']['values'] = rounded
    yield d
