"""Fault injectors that need no hook in the repository.

* LineInterrupter: cancellation at the N-th executed source line of the code
  under test (sys.settrace 'line' events in frames of matched_markets/
  methodology only) -- the notebook user's "stop" button, or an allocation
  failure, at an arbitrary instant *inside* an operation.
* rng states: save / jump / restore both process-global generators.
"""
import os
import random
import sys


class Injected:
  """Marker mixin: lets the harness tell its own exception from any other."""


class InjectedKeyboardInterrupt(KeyboardInterrupt, Injected):
  pass


class InjectedMemoryError(MemoryError, Injected):
  pass


EXC = {'KeyboardInterrupt': InjectedKeyboardInterrupt,
       'MemoryError': InjectedMemoryError}


class LineInterrupter:
  """Counts (and optionally interrupts at) line events of the code under test."""

  def __init__(self, directory):
    self._dir = os.path.abspath(directory) + os.sep
    self._files = {}
    self.count = 0
    self.at = None
    self.exc_name = None
    self.fired = None       # (filename, lineno, function) where it landed
    self.swallowed = 0      # delivered, but caught by something on the stack

  def _ours(self, filename):
    r = self._files.get(filename)
    if r is None:
      r = os.path.abspath(filename).startswith(self._dir)
      self._files[filename] = r
    return r

  def _global(self, frame, event, arg):
    del arg
    if event == 'call' and self._ours(frame.f_code.co_filename):
      return self._local
    return None

  def _local(self, frame, event, arg):
    del arg
    if event == 'line':
      self.count += 1
      if self.at is not None and self.count == self.at:
        self.fired = (os.path.basename(frame.f_code.co_filename),
                      frame.f_lineno, frame.f_code.co_name)
        raise EXC[self.exc_name]('injected at line event %d' % self.count)
    return self._local

  def run(self, fn, at=None, exc_name='KeyboardInterrupt'):
    """Runs fn() traced. Returns (kind, value, lines).

    kind: 'ok' (value = result), 'exc' (value = ordinary exception raised by
    the code under test) or 'interrupted' (value = where the fault landed).
    """
    self.count = 0
    self.at = at
    self.exc_name = exc_name
    self.fired = None
    old = sys.gettrace()
    sys.settrace(self._global)
    try:
      try:
        value = fn()
        kind = 'ok'
      finally:
        sys.settrace(old)
    except BaseException as e:  # pylint: disable=broad-except
      if isinstance(e, Injected) or self.fired is not None:
        return 'interrupted', self.fired, self.count
      if isinstance(e, Exception):
        return 'exc', e, self.count
      raise
    if self.fired is not None:
      # the fault was delivered and something on the stack swallowed it (a
      # broad `except` fallback): the call WAS interrupted, whatever it then
      # returned is not an answer to compare
      self.swallowed += 1
      return 'interrupted', self.fired, self.count
    return kind, value, self.count


class GlobalRng:
  """Owns both process-global generators."""

  def __init__(self, np):
    self._np = np

  def seed(self, seed):
    self._np.random.seed(seed % (2**32))
    random.seed(seed)

  def save(self):
    return (self._np.random.get_state(), random.getstate())

  def restore(self, state):
    self._np.random.set_state(state[0])
    random.setstate(state[1])

  def fingerprint(self):
    st = self._np.random.get_state()
    return (int(st[2]), int(st[1][0]), int(st[1][1]))
